"""Helpers that look into cascade frames on the simulated wire (which traffic may be dropped, message identity)."""


def _first(frames):
    from cascade.executor.serde import des_message
    try:
        return des_message(frames[0])
    except Exception:
        return None


def faultable(frames, addr):
    """Loss and duplication only on traffic the protocol is built to survive: Syn-prefixed frames and bare Acks."""
    from cascade.executor.msg import Ack, Syn
    return isinstance(_first(frames), (Syn, Ack))


def fault_key(frames, addr):
    """Identity of the logical message a frame belongs to: (sender listener address, idx) for the data frames
    (from the Syn) and for the acks (sent to that very address)."""
    from cascade.executor.msg import Ack, Syn
    from sim.fakes import Net
    m = _first(frames)
    if isinstance(m, Syn):
        return (Net.norm(m.addr), m.idx)
    if isinstance(m, Ack):
        return (Net.norm(addr), m.idx)
    return None


def describe(frames):
    m = _first(frames)
    if m is None:
        return f"raw[{len(frames)}]"
    from cascade.executor.msg import Syn
    from cascade.executor.serde import des_message
    if isinstance(m, Syn) and len(frames) > 1:
        try:
            import pickle
            inner = pickle.loads(frames[1])
            return f"Syn({m.idx})+{type(inner).__name__}"
        except Exception:
            return f"Syn({m.idx})+?"
    return type(m).__name__ + (f"({m.idx})" if hasattr(m, "idx") else "")
