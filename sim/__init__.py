"""Deterministic simulation kernel and fakes for earthkit-workflows / cascade (see /verif/DESIGN.md section 3)."""
