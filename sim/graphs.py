"""Graph plans for C10: graphs built by hand with earthkit.workflows.graph.Node and through the fluent API,
lowered with cascade.low.into.graph2job; a graph-level reference interpreter (k-th yielded value <-> k-th
*declared* output); the structural oracle (one task per node, one edge per input)."""
import copy

from . import simtasks

NOUTS = [1, 1, 1, 2, 3, 4, 7, 10, 11, 12, 14]


def gen_graph_plan(rng, opts=None):
    o = dict(nmax=7, fluent_pct=50, mismatch_pct=8, big_pct=100, sorted_only=False, dup_arg_pct=4)
    o.update(opts or {})
    if rng.randrange(100) < o["fluent_pct"]:
        return _gen_fluent(rng, dict(o, _fluent=True))
    return _gen_hand(rng, o)


def _nout(rng, o):
    n = rng.choice(NOUTS)
    if n > 4 and rng.randrange(100) >= o["big_pct"]:
        n = rng.choice([1, 2, 3])
    return n


def _gen_hand(rng, o):
    n = rng.randint(1, o["nmax"])
    nodes = []
    for i in range(n):
        nout = _nout(rng, o)
        scheme = rng.choice(["numeric", "numeric", "alpha", "shuffled", "default"]) if nout > 1 else rng.choice(["default", "default", "named"])
        if o["sorted_only"] and (scheme == "shuffled" or (scheme in ("numeric", "default") and nout > 10)):
            scheme = "alpha"
        if scheme == "numeric":
            outs = [str(k) for k in range(nout)]
        elif scheme == "alpha":
            outs = [f"o{chr(97 + k)}" for k in range(nout)]
        elif scheme == "shuffled":
            outs = [f"o{chr(97 + k)}" for k in range(nout)]
            rng.shuffle(outs)
        elif scheme == "named":
            outs = ["out"]
        else:
            outs = None if nout == 1 else [str(k) for k in range(nout)]
        nin = rng.randint(0, min(3, i)) if i else 0
        if i and nin == 0 and rng.random() < 0.6:
            nin = 1
        inputs = []
        for k in range(nin):
            p = rng.randrange(i)
            pouts = nodes[p]["outs"] or ["0"]
            inputs.append([f"in{k}", p, rng.choice(pouts)])
        args = [["in", x[0]] for x in inputs]
        for _ in range(rng.randint(0, 2) if rng.random() > 0.08 else rng.randint(8, 13)):
            args.insert(rng.randint(0, len(args)), ["static", rng.choice([rng.randint(0, 9), f"S{rng.randint(0, 9)}", None, 2.5])])
        if inputs and rng.randrange(100) < o["dup_arg_pct"]:
            args.append(["in", inputs[0][0]])      # one input used in two positions
        kwargs = {f"kw{k}": rng.randint(0, 9) for k in range(rng.choice([0, 0, 1, 2]))}
        nyield = nout
        if nout > 1 and rng.randrange(100) < o["mismatch_pct"]:
            nyield = nout + rng.choice([-1, 1, 2]) if nout > 2 else nout + rng.choice([-1, 1])
        nodes.append(dict(name=f"n{i}", outs=outs, nout=nout, inputs=inputs, args=args, kwargs=kwargs, nyield=nyield))
    if len(nodes) > 1 and rng.randrange(100) < o.get("dup_name_pct", 3):
        # two distinct nodes under one name: lowering (node name = task id) must refuse, it can not be faithful
        a, b = rng.sample(range(len(nodes)), 2)
        nodes[b]["label"] = nodes[a]["name"]
    return dict(mode="hand", nodes=nodes)


def _gen_fluent(rng, o):
    """A small fluent program: source (optionally a generator) -> steps of map / map-with-yields / reduce / join."""
    nsrc = rng.choice([1, 2, 3, 3, 4, 5, 6, 7, 11, 12, 13])
    ky = _nout(rng, o)
    # keep the lowered job small (the pure-python pre-scheduler is cubic in the size of a component): wide in one direction only
    if nsrc >= 6 and ky > 2:
        ky = rng.choice([1, 1, 2])
    if ky >= 7 and nsrc > 3:
        nsrc = rng.choice([1, 2, 3])
    steps = []
    depth = rng.randint(0, 3)
    dims = ["x"] + (["y"] if ky > 1 else [])
    for d in range(depth):
        r = rng.random()
        if r < 0.45:
            steps.append(["map", rng.choice(["in_first", "static_first", "implicit"]), rng.randint(0, 9)])
        elif r < 0.6 and "y" not in dims and len(dims) < 2:
            k2 = _nout(rng, o)
            if k2 > 1:
                steps.append(["map_yields", k2, rng.choice([0, 0, 0, 1]) if rng.randrange(100) < o["mismatch_pct"] * 3 else 0])
                dims.append("y")
            else:
                steps.append(["map", "implicit", 0])
        elif r < 0.85 and dims:
            dim = rng.choice(dims)
            if dim == "x" and rng.random() < 0.4:
                steps.append(["reduce", dim, rng.choice([2, 2, 3, 4])])     # batched: one Payload serves nodes of different arity
            else:
                steps.append(["reduce", dim])
            dims.remove(dim)
            if not dims:
                break
        else:
            steps.append(["map", "in_first", rng.randint(0, 9)])
    src_mismatch = 0
    if ky > 1 and rng.randrange(100) < o["mismatch_pct"]:
        src_mismatch = rng.choice([-1, 1])
    # how the program reaches the lowering: straight from Action.graph(), or through Cascade.from_actions (which de-duplicates),
    # there also as two actions that state the same program twice (every node has a duplicate to be merged)
    via = rng.choice(["graph", "graph", "cascade", "cascade2"])
    return dict(mode="fluent", nsrc=nsrc, ky=ky, steps=steps, src_mismatch=src_mismatch, via=via)


# ---------------------------------------------------------------------------------------------- building
def build_graph(gp):
    if gp["mode"] == "hand":
        return _build_hand(gp)
    return _build_fluent(gp)


def _build_hand(gp):
    from earthkit.workflows.graph import Graph, Node
    built = []
    used = set()
    for nd in gp["nodes"]:
        f = simtasks.make(nd["name"], nd["nout"], 0, nd["nyield"] if nd["nyield"] != nd["nout"] else None)
        args = [a[1] for a in nd["args"]]
        ins = {}
        for iname, p, out in nd["inputs"]:
            ins[iname] = built[p].get_output(out)
            used.add(p)
        built.append(Node(nd.get("label", nd["name"]), outputs=list(nd["outs"]) if nd["outs"] is not None else None, payload=(f, args, dict(nd["kwargs"])), **ins))
    sinks = [b for i, b in enumerate(built) if i not in used]
    return Graph(sinks)


def _build_fluent(gp):
    acts = _fluent_actions(gp)
    if gp.get("via", "graph") == "graph":
        return acts[0].graph()
    from earthkit.workflows import Cascade
    return Cascade.from_actions(acts)._graph


def fluent_undeduplicated(gp):
    """The graphs of the actions as the author stated them, before Cascade.from_actions merged anything."""
    return [a.graph() for a in _fluent_actions(gp)]


def _fluent_actions(gp):
    cache = {}

    def mk(tag, *a):
        # one callable per tag: a program stated twice has equal payloads
        if tag not in cache:
            cache[tag] = simtasks.make(tag, *a)
        return cache[tag]
    return [_fluent_action(gp, mk) for _ in range(2 if gp.get("via") == "cascade2" else 1)]


def _fluent_action(gp, make):
    import numpy as np
    from earthkit.workflows import fluent
    ky = gp["ky"]
    srcs = np.empty(gp["nsrc"], dtype=object)
    for i in range(gp["nsrc"]):
        ny = None if not gp["src_mismatch"] else ky + gp["src_mismatch"]
        srcs[i] = make(f"src{i}", ky, 0, ny)
    act = fluent.from_source(srcs, yields=("y", list(range(ky))) if ky > 1 else None, dims=["x"], coords={"x": list(range(gp["nsrc"]))})
    for si, st in enumerate(gp["steps"]):
        if st[0] == "map":
            f = make(f"m{si}", 1)
            if st[1] == "in_first":
                pl = fluent.Payload(f, [fluent.Node.input_name(0), f"S{st[2]}"])
            elif st[1] == "static_first":
                pl = fluent.Payload(f, [f"S{st[2]}", fluent.Node.input_name(0)], {"kw": st[2]})
            else:
                pl = fluent.Payload(f)
            act = act.map(pl)
        elif st[0] == "map_yields":
            k2 = st[1]
            f = make(f"g{si}", k2, 0, (k2 + (1 if st[2] else 0)) if st[2] else None)
            act = act.map(fluent.Payload(f), yields=("y", list(range(k2))))
        elif st[0] == "reduce":
            f = make(f"r{si}", 1)
            if len(st) > 2:
                f.batchable = True
                act = act.reduce(fluent.Payload(f), dim=st[1], batch_size=st[2])
            else:
                act = act.reduce(fluent.Payload(f), dim=st[1])
    return act


def canonical_job(graph):
    """Lower with the repository's graph2job, then rebuild with tasks and edges sorted (Graph sinks come from a set
    of node objects, whose order depends on memory addresses); every dataset is requested."""
    from cascade.low.core import DatasetId, JobInstance
    from cascade.low.into import graph2job
    job = graph2job(graph)
    tasks = dict(sorted(job.tasks.items()))
    edges = sorted(job.edges, key=lambda e: (e.sink_task, repr(e.source), str(e.sink_input_kw), str(e.sink_input_ps)))
    import random
    random.Random(len(edges) * 7919 + len(tasks)).shuffle(edges)      # edge order carries no meaning
    j2 = JobInstance(tasks=tasks, edges=edges)
    j2.ext_outputs = [DatasetId(t, o) for t in tasks for o in sorted(tasks[t].definition.output_schema)]
    return j2


def ref_eval_graph(graph):
    """Direct evaluation of the graph: payload (func, args, kwargs); argument strings naming an input are replaced by
    the parent's value; the k-th yielded value belongs to the k-th *declared* output.  Returns (values, failures)."""
    vals, failed = {}, {}
    for node in graph.nodes(forwards=True):
        f, args, kwargs = node.payload
        if any((inp.parent.name, inp.name) not in vals for inp in node.inputs.values()):
            failed[node.name] = "upstream failed"
            continue
        a = [vals[(node.inputs[x].parent.name, node.inputs[x].name)] if isinstance(x, str) and x in node.inputs else x for x in args]
        r = f(*a, **kwargs)
        outs = node.outputs
        if len(outs) == 1:
            vals[(node.name, outs[0])] = r
        else:
            produced = list(r)
            if len(produced) != len(outs):
                failed[node.name] = f"count mismatch: declared {len(outs)}, yielded {len(produced)}"
                continue
            for o, v in zip(outs, produced):
                vals[(node.name, o)] = v
    return vals, failed


def structural_violations(graph, job):
    """One task per node, one edge per input, edge source = the input's parent and output name, sink position =
    the position of the input's name in the payload arguments."""
    out = []
    nodes = {n.name: n for n in graph.nodes()}
    if set(nodes) != set(job.tasks):
        out.append(("task_set_differs_from_nodes", (sorted(set(nodes) ^ set(job.tasks))[:4],)))
        return out
    want = set()
    for n in nodes.values():
        args = n.payload[1]
        for iname, src in n.inputs.items():
            pos = [i for i, a in enumerate(args) if isinstance(a, str) and a == iname]
            want.add((src.parent.name, src.name, n.name, pos[-1] if pos else None))
        import re
        ghosts = [a for a in args if isinstance(a, str) and re.fullmatch(r"input\d+", a) and a not in n.inputs]
        if ghosts:
            # an argument that names an input this node does not have reaches the callable as a literal string
            out.append(("payload_names_input_the_node_does_not_have", (n.name[:40], ghosts, sorted(n.inputs))))
        if set(n.outputs) != set(job.tasks[n.name].definition.output_schema):
            out.append(("outputs_differ", (n.name, n.outputs, sorted(job.tasks[n.name].definition.output_schema))))
    got = {(e.source.task, e.source.output, e.sink_task, e.sink_input_ps) for e in job.edges}
    if len(job.edges) != len(got):
        out.append(("duplicate_edges", len(job.edges) - len(got)))
    if want != got:
        out.append(("edges_differ_from_inputs", (sorted(want - got, key=repr)[:3], sorted(got - want, key=repr)[:3])))
    return out


class LoweringFailed(Exception):
    """graph2job raised on a well-formed graph with unique node names."""


class Refused(Exception):
    """graph2job declined the graph (e.g. two nodes under one name): a legitimate outcome, nothing to run."""


def materialise(gp):
    """-> (job, ref values keyed (task, output), info)"""
    graph = build_graph(gp)
    names = [n.get("label", n["name"]) for n in gp.get("nodes", [])]
    dup = len(names) != len(set(names))
    try:
        job = canonical_job(graph)
    except AssertionError:
        if dup:
            raise Refused("duplicate node names")
        raise LoweringFailed("AssertionError")
    except Exception as e:  # noqa
        raise LoweringFailed(repr(e)[:200])
    if dup:
        # it lowered a graph in which two different nodes share a name: one of them is gone
        from cascade.low.core import JobInstance
        info = dict(expect_failure=False, failed={}, structural=[("two_nodes_lowered_to_one_task", (sorted(n for n in set(names) if names.count(n) > 1), len(names), len(job.tasks)))],
                    unsorted_declared=[], dup_input_arg=[], max_outputs=0, nodes=len(names))
        return JobInstance(tasks={}, edges=[]), {}, info
    vals, failed = ref_eval_graph(graph)
    nodes = list(graph.nodes())
    info = dict(expect_failure=bool(failed), failed=failed, structural=structural_violations(graph, job),
                unsorted_declared=sorted(n.name for n in nodes if list(n.outputs) != sorted(n.outputs)),
                dup_input_arg=sorted(n.name for n in nodes if any(sum(1 for a in n.payload[1] if isinstance(a, str) and a == i) > 1 for i in n.inputs)),
                max_outputs=max((len(n.outputs) for n in nodes), default=0), nodes=len(nodes))
    if gp["mode"] == "fluent" and gp.get("via", "graph") != "graph" and not failed:
        # what the actions compute as their author stated them: merging duplicates must not add or lose a single value
        orig = set()
        for g0 in fluent_undeduplicated(gp):
            v0, f0 = ref_eval_graph(g0)
            orig |= {repr(v) for v in v0.values()}
        info["orig_valueset"] = sorted(orig)
    return job, vals, info


def shrink_graph_candidates(gp):
    if gp["mode"] == "hand":
        nodes = gp["nodes"]
        for i in range(len(nodes) - 1, -1, -1):
            if any(x[1] == i for nd in nodes for x in nd["inputs"]):
                continue
            c = copy.deepcopy(gp)
            del c["nodes"][i]
            for nd in c["nodes"]:
                for x in nd["inputs"]:
                    if x[1] > i:
                        x[1] -= 1
            if c["nodes"]:
                yield c
        for i, nd in enumerate(nodes):
            for k in range(len(nd["inputs"])):
                c = copy.deepcopy(gp)
                iname = c["nodes"][i]["inputs"][k][0]
                del c["nodes"][i]["inputs"][k]
                c["nodes"][i]["args"] = [a for a in c["nodes"][i]["args"] if not (a[0] == "in" and a[1] == iname)]
                yield c
            if nd["kwargs"] or any(a[0] == "static" for a in nd["args"]):
                c = copy.deepcopy(gp)
                c["nodes"][i]["kwargs"] = {}
                c["nodes"][i]["args"] = [a for a in c["nodes"][i]["args"] if a[0] == "in"]
                yield c
    else:
        for i in range(len(gp["steps"]) - 1, -1, -1):
            c = copy.deepcopy(gp)
            del c["steps"][i]
            # keep the program well-formed: a reduce over a dimension that no longer exists is dropped too
            dims = ["x"] + (["y"] if c["ky"] > 1 else [])
            ok = True
            for st in c["steps"]:
                if st[0] == "map_yields":
                    if "y" in dims:
                        ok = False
                    dims.append("y")
                elif st[0] == "reduce":
                    if st[1] not in dims:
                        ok = False
                        break
                    dims.remove(st[1])
                    if not dims and st is not c["steps"][-1]:
                        ok = False
            if ok:
                yield c
        if gp["nsrc"] > 1:
            c = copy.deepcopy(gp)
            c["nsrc"] -= 1
            yield c
