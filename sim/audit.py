"""Seam audit (DESIGN.md 3.2): every use of a nondeterminism / I/O source inside /repo/src/cascade must be one the
simulator replaces (or is known to be harmless).  An uncovered use (a refactor that starts calling time.monotonic()
or opens a new kind of socket) stops the check with exit code 2 - never with a pass, never with a VIOLATION."""
import ast
import os
import sys

WATCHED = {"time", "socket", "threading", "multiprocessing", "subprocess", "os", "random", "uuid", "tempfile", "signal", "select",
           "asyncio", "concurrent", "zmq", "atexit", "queue", "selectors", "secrets", "shutil", "pathlib", "mmap", "fcntl"}

# module -> attribute -> how it is covered
COVERED = {
    "time": {"time_ns": "virtual clock", "time": "virtual clock", "sleep": "kernel sleep", "monotonic_ns": "virtual clock", "perf_counter_ns": "virtual clock",
             "monotonic": "virtual clock", "perf_counter": "virtual clock"},
    "socket": {"socket": "UDP fake", "AF_INET": "const", "SOCK_DGRAM": "const", "gethostname": "pure name lookup, constant per run", "getfqdn": "pure name lookup, constant per run",
               "timeout": "exception type (fake UDP sockets honour settimeout)"},
    "threading": {"local": "thread-local (each simulated process is a thread)", "Lock": "SimLock in cascade.shm.dataset"},
    "multiprocessing": {"get_context": "SimProcess", "shared_memory": "segment namespace fake", "shared_memory.SharedMemory": "segment namespace fake",
                        "resource_tracker": "no-op", "resource_tracker.unregister": "per-process registration set where a harness enables it (shmstore procs-exit), else no-op", "process": "type only", "process.BaseProcess": "type only",
                        "Process": "benchmarks launcher only (re-written in the harness)"},
    "subprocess": {"run": "fake (findmnt / uv never invoked with packages)", "Popen": "fake: records the command line", "CalledProcessError": "type"},
    "os": {"environ": "per-process env shim", "getenv": "per-process env shim", "environ.get": "per-process env shim", "getpid": "unused in simulated paths",
           "path.join": "pure", "path.basename": "pure", "path.dirname": "pure", "path.splitext": "pure", "path.abspath": "pure", "path.sep": "const", "sep": "const", "fspath": "pure",
           "path.exists": "in-memory fs for spill paths", "path.isfile": "in-memory fs for spill paths", "path.isdir": "in-memory fs for spill paths", "path.getsize": "in-memory fs for spill paths",
           "remove": "in-memory fs for spill paths", "unlink": "in-memory fs for spill paths", "listdir": "in-memory fs for spill paths", "makedirs": "in-memory fs for spill paths",
           "mkdir": "in-memory fs for spill paths", "rename": "in-memory fs for spill paths", "replace": "in-memory fs for spill paths"},
    "uuid": {"uuid4": "ids from the choice stream"},
    "tempfile": {"TemporaryDirectory": "in-memory fs"},
    "signal": {"signal": "no-op", "SIGINT": "const", "SIGTERM": "const"},
    "concurrent": {"futures": "pool fake", "futures.ThreadPoolExecutor": "pool fake", "futures.wait": "kernel wait", "futures.ALL_COMPLETED": "const",
                   "futures.FIRST_COMPLETED": "const", "futures.Executor": "type", "futures.Future": "type"},
    "zmq": {"Context": "fake", "Socket": "fake", "Poller": "fake", "PUSH": "const", "PULL": "const", "REQ": "const", "REP": "const", "POLLIN": "const", "LINGER": "const",
            "REQ_RELAXED": "fake REQ sockets never enforce the send/recv alternation; without REQ_CORRELATE a late reply is handed to the next request, as in ZeroMQ",
            "REQ_CORRELATE": "const (request ids are not modelled: treated as absent)", "RCVTIMEO": "const", "SNDTIMEO": "const",
            "CONFLATE": "fake: a bound socket with the option set keeps only the newest undelivered message"},
    "atexit": {"register": "per-process exit handlers"},
    "builtins": {"open:shm/disk.py": "in-memory fs (module attribute cascade.shm.disk.open)", "open:gateway/router.py": "in-memory fs (module attribute cascade.gateway.router.open)"},
}
# files whose code never runs inside a simulation (launchers, plotting, benchmarks): audited separately as "not simulated"
NOT_SIMULATED = ("benchmarks/", "low/tracing.py")


def scan(root):
    uses = {}   # (module, attr) -> [file:line]
    for dp, dn, fn in os.walk(root):
        for f in fn:
            if not f.endswith(".py"):
                continue
            path = os.path.join(dp, f)
            rel = os.path.relpath(path, root)
            try:
                tree = ast.parse(open(path).read())
            except SyntaxError as e:
                uses[("<syntax>", str(e))] = [rel]
                continue
            alias = {}     # local name -> module path
            for node in ast.walk(tree):
                if isinstance(node, ast.Import):
                    for a in node.names:
                        top = a.name.split(".")[0]
                        if top in WATCHED:
                            alias[a.asname or a.name.split(".")[0]] = a.name if a.asname else top
                            if "." in a.name:
                                uses.setdefault((top, a.name.split(".", 1)[1]), []).append(f"{rel}:{node.lineno}")
                elif isinstance(node, ast.ImportFrom) and node.module:
                    top = node.module.split(".")[0]
                    if top in WATCHED:
                        sub = node.module.split(".", 1)[1] + "." if "." in node.module else ""
                        for a in node.names:
                            uses.setdefault((top, sub + a.name), []).append(f"{rel}:{node.lineno}")
            for node in ast.walk(tree):
                if isinstance(node, ast.Call) and isinstance(node.func, ast.Name) and node.func.id == "open":
                    uses.setdefault(("builtins", "open:" + rel), []).append(f"{rel}:{node.lineno}")
            for node in ast.walk(tree):
                if isinstance(node, ast.Attribute):
                    chain = []
                    n = node
                    while isinstance(n, ast.Attribute):
                        chain.append(n.attr)
                        n = n.value
                    if isinstance(n, ast.Name) and n.id in alias:
                        full = alias[n.id].split(".") + list(reversed(chain))
                        top = full[0]
                        attr = ".".join(full[1:])
                        uses.setdefault((top, attr), []).append(f"{rel}:{node.lineno}")
    return uses


def run(root=None, verbose=False):
    root = root or os.path.join(os.environ.get("VERIF_REPO_SRC", "/repo/src"), "cascade")
    uses = scan(root)
    bad = []
    for (mod, attr), where in sorted(uses.items()):
        sim_where = [w for w in where if not any(w.startswith(p) for p in NOT_SIMULATED)]
        if not sim_where:
            continue
        cov = COVERED.get(mod, {})
        ok = attr in cov or any(attr.startswith(k + ".") for k in cov) or any(k.startswith(attr + ".") for k in cov) or attr == ""
        if mod == "os" and attr.startswith("path.") and attr not in cov:
            ok = False
        if verbose:
            print(("ok  " if ok else "BAD ") + f"{mod}.{attr}: {cov.get(attr, '')} {sim_where[:3]}")
        if not ok:
            bad.append((mod, attr, sim_where[:3]))
    if bad:
        for mod, attr, where in bad:
            print(f"HARNESS-ERROR unsimulated seam {mod}.{attr} used at {where}")
        return 2
    return 0


if __name__ == "__main__":
    sys.exit(run(verbose=True))
