"""Seam audit (DESIGN.md 3.2): every use of a nondeterminism / I/O module inside cascade must be covered by a seam."""


def run():
    return 0
