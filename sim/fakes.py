"""In-process fakes behind every nondeterminism / I/O seam of cascade (DESIGN.md 3.2, 3.3).

`install()` must run before `cascade` is imported.  Global replacements are *dispatchers*: a
simulated thread gets the fake, any other thread the original.
"""
import collections
import itertools
import sys
import types

from .kernel import SimProc

K = None  # current kernel (one simulation at a time per OS process)


def new_world(kernel, net_cfg=None, devshm=1 << 30):
    """Attach fresh fake subsystems to a kernel and make it current."""
    global K
    K = kernel
    kernel.cfg.setdefault("devshm", devshm)
    kernel.net = Net(kernel, net_cfg or {})
    kernel.udp = Udp()
    kernel.segments = {}
    kernel.seg_virtual = {}
    kernel.uuid_ctr = itertools.count()
    kernel.fs = FakeFS(kernel)
    kernel.handlers = collections.defaultdict(list)
    kernel.name_child = default_name_child
    kernel.popen_log = []
    return kernel


def emit(event, *args):
    for h in K.handlers.get(event, ()):
        h(*args)


def default_name_child(parent, target, args=(), kwargs=None):
    mod = getattr(target, "__module__", "")
    tname = getattr(target, "__name__", "proc")
    if mod == "cascade.shm.server":
        return f"{parent.name}.shm"
    if tname == "start_data_server":
        return f"{parent.name}.data"
    if kwargs and "runnerContext" in kwargs:
        return f"{parent.name}.{kwargs['runnerContext'].workerId.worker}"
    return f"{parent.name}.{tname}"


# ------------------------------------------------------------------ zmq
class Net:
    """Simulated network: atomic multipart messages, per-link FIFO, no order across links,
    messages to an unbound address wait for the bind, messages to a dead endpoint are lost.

    cfg keys: lat=(lo_ns, hi_ns); faultable(frames, addr)->bool; drop_pct, dup_pct;
    max_drops_per_message + fault_key(frames, addr) (fair loss: total drops of the frames and acks of one logical message); plan = {"drop": set(n), "dup": set(n)} explicit faults on the
    n-th faultable frame, "hold": {n: extra_ns} a long delay of that frame and of what follows it on the same link; partition(kernel, addr, frames)->bool: faultable traffic dropped entirely while true.
    """

    def __init__(self, kernel, cfg):
        self.k, self.cfg = kernel, cfg
        self.inbox = {}
        self.bound = {}
        self.waiting = {}
        self.link_seq = itertools.count()
        self.link_last = {}
        self.stats = collections.Counter()
        self.wire = []        # (seq, event, addr, summary)
        self.recvlog = []     # (seq, addr, frames)
        self.nfaultable = 0
        self.consec = collections.Counter()
        self.faults_on = True
        self.conflate = set()
        self.keep_wire = cfg.get("keep_wire", False)
        self.describe = cfg.get("describe")

    @staticmethod
    def norm(addr):
        import socket as s
        return addr.replace("localhost", s.gethostname())

    def bind(self, addr, proc):
        addr = self.norm(addr)
        self.bound[addr] = proc
        self.inbox.setdefault(addr, [])
        for fr in self.waiting.pop(addr, []):
            self.inbox[addr].append(fr)
        return addr

    def _wire(self, ev, addr, frames, extra=None):
        if self.keep_wire:
            d = self.describe(frames) if self.describe else len(frames)
            self.wire.append((self.k.seq, ev, addr, d, extra))

    def send(self, link, addr, frames):
        kk = self.k
        cfg = self.cfg
        self.stats["sent"] += 1
        lo, hi = cfg.get("lat", (50_000, 50_000))
        lat = kk.ch.uniform(lo, hi)
        faultable = self.faults_on and cfg.get("faultable") is not None and cfg["faultable"](frames, addr)
        copies = 1
        if faultable:
            n = self.nfaultable
            self.nfaultable += 1
            self.stats["faultable"] += 1
            plan = cfg.get("plan") or {}
            part = cfg.get("partition")
            drop = dup = False
            if part is not None and part(kk, addr, frames):
                drop = True
                kk.fire("partition_drop")
            elif n in plan.get("drop", ()):
                drop = True
            elif n in plan.get("dup", ()):
                dup = True
            elif str(n) in plan.get("hold", {}) or n in plan.get("hold", {}):
                # a connection outage: this frame, and whatever is queued behind it on the same pipe, arrives that much later
                hold = plan["hold"]
                lat += hold.get(n, hold.get(str(n)))
                self.stats["held"] += 1
                kk.fire("hold")
                self._wire("hold", addr, frames, n)
            else:
                dp, up = cfg.get("drop_pct", 0), cfg.get("dup_pct", 0)
                if dp or up:
                    r = kk.ch.draw(100)
                    if r < dp:
                        cap = cfg.get("max_drops_per_message")
                        key = cfg["fault_key"](frames, addr) if cap is not None else None
                        if cap is None or self.consec[key] < cap:
                            drop = True
                            self.consec[key] += 1
                        else:
                            self.stats["drop_capped"] += 1
                    elif r >= 100 - up:
                        dup = True
            if drop:
                self.stats["dropped"] += 1
                kk.fire("drop")
                kk.log("net.drop", addr, n)
                self._wire("drop", addr, frames, n)
                return
            if dup:
                copies = 2
                self.stats["dup"] += 1
                kk.fire("duplicate")
                self._wire("dup", addr, frames, n)
        self._wire("send", addr, frames)
        when = max(kk.now + lat, self.link_last.get(link, 0) + 1)
        self.link_last[link] = when
        for i in range(copies):
            kk.at(when + i * max(lat, 1000), lambda: self._deliver(addr, frames))

    def _deliver(self, addr, frames):
        if addr in self.bound:
            p = self.bound[addr]
            if p.exitcode is not None or p.killed_at is not None:
                self.stats["lost_dead"] += 1
                return
            if addr in self.conflate:
                del self.inbox[addr][:]
            self.inbox[addr].append(frames)
            self.stats["delivered"] += 1
        else:
            self.waiting.setdefault(addr, []).append(frames)


def _endpoint_up(addr):
    p = K.net.bound.get(addr)
    return p is not None and p.exitcode is None and p.killed_at is None


class FSocket:
    def __init__(self, kind):
        self.kind, self.addr, self.link = kind, None, None
        self.reply = []
        self.peer = None
        self.linger_ms = None       # ZeroMQ default: infinite
        self.unflushed = None       # addresses a message was queued for while nobody was there to take it
        self.relaxed = False        # REQ_RELAXED: a new request may be sent although the previous one was never answered
        self.correlate = False      # REQ_CORRELATE: replies to abandoned requests are discarded
        self.req_id = 0
        self.awaiting = False
        self.conflate = False

    def set(self, opt=None, val=None, *a):
        if opt == 17:
            self.linger_ms = val
        elif opt == 53:
            self.relaxed = bool(val)
        elif opt == 52:
            self.correlate = bool(val)
        elif opt == 54:
            self.conflate = bool(val)     # ZMQ_CONFLATE: only the last message is kept in the queue

    setsockopt = set

    def __del__(self):
        # ZeroMQ semantics of dropping a socket + its context (what `comms.callback` does after every send): the caller blocks
        # until queued messages could be handed to a peer, or LINGER expires - for ever if LINGER was never set
        try:
            if not self.unflushed or K is None or K.end is not None:
                return
            c = K.cur()
            if c is None or c.killed or c.state == "done":
                return
            addrs = self.unflushed

            def flushed():
                return all(_endpoint_up(a) for a in addrs)
            if flushed():
                return
            K.probe("zmq_linger_wait")
            inf = self.linger_ms is None or self.linger_ms < 0
            if inf:
                K.probe("zmq_linger_wait_infinite")
            K.block(flushed, None if inf else int(self.linger_ms) * 1_000_000, "zlinger", tuple(sorted(addrs)))
        except BaseException:  # noqa  (nothing may escape a finaliser; a killed thread raises again at its next seam)
            pass

    def close(self, *a):
        pass

    def bind(self, addr):
        K.check_killed()
        self.addr = K.net.bind(addr, K.cur().proc)
        if self.conflate:
            K.net.conflate.add(self.addr)

    def bind_to_random_port(self, base, *a, **kw):
        port = 40000 + K.ch.draw(1000)
        while Net.norm(f"{base}:{port}") in K.net.bound:
            port += 1
        self.bind(f"{base}:{port}")
        return port

    def connect(self, addr):
        K.check_killed()
        self.addr = Net.norm(addr)
        self.link = next(K.net.link_seq)

    def send(self, b, *a, **kw):
        self.send_multipart([b])

    def send_multipart(self, parts, *a, **kw):
        K.check_killed()
        frames = [bytes(p) for p in parts]
        if self.kind == 3:      # REQ
            if self.awaiting and not self.relaxed:
                raise RuntimeError("Operation cannot be accomplished in current state")     # zmq EFSM
            self.req_id += 1
            self.awaiting = True
            if self.correlate:
                self.reply = []
            K.net.send(self.link, self.addr, frames + [(self, self.req_id)])
        elif self.kind == 4:    # REP
            peer, rid = self.peer
            lat = K.ch.uniform(*K.net.cfg.get("lat", (50_000, 50_000)))
            K.at(K.now + lat, lambda: peer.reply.append((rid, frames)))
        else:
            if self.kind == 8 and not _endpoint_up(self.addr):
                if self.unflushed is None:
                    self.unflushed = set()
                self.unflushed.add(self.addr)
            K.net.send(self.link, self.addr, frames)
        K.step("zsend", self.addr, len(frames))

    def _ready(self):
        if self.kind == 3:
            if self.correlate:
                self.reply = [r for r in self.reply if r[0] == self.req_id]
            return bool(self.reply)
        return bool(K.net.inbox.get(self.addr))

    def recv_multipart(self, *a, **kw):
        K.block(self._ready, None, "zrecv", self.addr)
        if self.kind == 3:
            self.awaiting = False
            rid, frames = self.reply.pop(0)
            if rid != self.req_id:
                K.probe("late_reply_taken_for_newer_request")
            return frames
        fr = K.net.inbox[self.addr].pop(0)
        if self.kind == 4:
            self.peer = fr[-1]
            fr = fr[:-1]
        K.net.recvlog.append((K.seq, self.addr, fr))
        emit("zrecv", self.addr, fr)
        return fr

    def recv(self, *a, **kw):
        return self.recv_multipart()[0]

    def poll(self, timeout=None, flags=None):
        ok = K.block(self._ready, None if timeout is None else int(timeout) * 1_000_000, "zpoll1", self.addr)
        return 1 if ok else 0


class FPoller:
    def __init__(self):
        self.socks = []

    def register(self, s, flags=None):
        if s not in self.socks:
            self.socks.append(s)

    def unregister(self, s):
        self.socks.remove(s)

    def poll(self, timeout=None):
        K.block(lambda: any(s._ready() for s in self.socks),
                None if timeout is None else int(timeout) * 1_000_000, "zpoll", tuple(s.addr for s in self.socks))
        return [(s, 1) for s in self.socks if s._ready()]


class FContext:
    def socket(self, kind):
        return FSocket(kind)

    def term(self):
        pass


def make_zmq():
    m = types.ModuleType("zmq")
    m.Context, m.Poller, m.Socket = FContext, FPoller, FSocket
    m.PUSH, m.PULL, m.REQ, m.REP, m.POLLIN, m.LINGER = 8, 7, 3, 4, 1, 17
    m.REQ_RELAXED, m.REQ_CORRELATE, m.RCVTIMEO, m.SNDTIMEO, m.CONFLATE = 53, 52, 27, 28, 54
    m.__verif_fake__ = True
    return m


# ------------------------------------------------------------------ udp (loopback, lossless)
class Udp:
    def __init__(self):
        self.ports = {}
        self.eph = itertools.count(50000)


class FUdpSock:
    def __init__(self, *a, **kw):
        self.q, self.port, self.peer, self.refused = [], None, None, False
        self.proc = K.cur().proc
        self.closed = False
        self.timeout = None

    def settimeout(self, t):
        self.timeout = t

    def gettimeout(self):
        return self.timeout

    def bind(self, addr):
        K.check_killed()
        self.port = addr[1]
        K.udp.ports[self.port] = self

    def connect(self, addr):
        K.check_killed()
        self.peer = addr[1]
        self.port = next(K.udp.eph)
        K.udp.ports[self.port] = self
        K.cur().last_udp_port = self.port

    def _peer_alive(self, port):
        s = K.udp.ports.get(port)
        return s is not None and not s.closed and s.proc.exitcode is None and s.proc.killed_at is None

    def send(self, b):
        K.check_killed()
        if not self._peer_alive(self.peer):
            self.refused = True
        else:
            K.udp.ports[self.peer].q.append((bytes(b), ("127.0.0.1", self.port)))
        K.step("usend", self.peer)

    def sendto(self, b, addr):
        K.check_killed()
        emit("udp_sendto", self, bytes(b), addr)
        if self._peer_alive(addr[1]):
            K.udp.ports[addr[1]].q.append((bytes(b), ("127.0.0.1", self.port)))
        K.step("usendto", addr[1])

    def recvfrom(self, n):
        ok = K.block(lambda: bool(self.q) or self.refused, None if self.timeout is None else int(self.timeout * 1e9), "urecv", self.port)
        if not ok:
            raise TimeoutError("timed out")       # socket.timeout
        if self.refused and not self.q:
            self.refused = False
            raise ConnectionRefusedError()
        b, addr = self.q.pop(0)
        emit("udp_recvfrom", self, b, addr)
        return b, addr

    def recv(self, n):
        return self.recvfrom(n)[0]

    def close(self):
        self.closed = True
        if K.udp.ports.get(self.port) is self:
            K.udp.ports.pop(self.port, None)


# ------------------------------------------------------------------ shared memory
class _Seg:
    """One named segment: an anonymous in-memory file (memfd).  Every attachment maps it separately, so closing an attachment
    while views into it are alive fails exactly as multiprocessing.shared_memory does ("cannot close exported pointers
    exist"), and attachments of different simulated processes do not pin each other.  Sparse: a multi-GiB segment costs
    nothing until it is touched, so capacities beyond RAM can be configured."""

    def __init__(self, name, size):
        import os
        self.size = size
        self.fd = os.memfd_create("sim-" + name[:40])
        os.ftruncate(self.fd, size)

    def __del__(self):
        try:
            import os
            os.close(self.fd)
        except Exception:  # noqa
            pass


class FShm:
    """POSIX-like named segments: create / attach / unlink (unlink removes the name, existing mappings stay valid)."""

    def __init__(self, name=None, create=False, size=0):
        import mmap
        K.check_killed()
        seg = K.segments
        if create:
            if name in seg:
                raise FileExistsError(name)
            if K.cfg.get("shm_enomem") and K.cfg["shm_enomem"](name, size):
                K.fire("shm_enomem")
                raise OSError(12, "ENOMEM (injected)")
            if size <= 0:
                raise ValueError("'size' must be a positive number different from zero")
            seg[name] = _Seg(name, size)
            K.seg_virtual[name] = size
            emit("shm_create", name, size)
        elif name not in seg:
            raise FileNotFoundError(name)
        self._name, self._seg = name, seg[name]
        _rt_register(name)
        self.size = self._seg.size
        self._mmap = mmap.mmap(self._seg.fd, self.size)
        self.buf = memoryview(self._mmap)
        self.name = name
        K.step("shm.open", name, create)

    def close(self):
        if self.buf is not None:
            self.buf.release()
            self.buf = None
        if self._mmap is not None:
            self._mmap.close()      # BufferError("cannot close exported pointers exist") while views are alive
            self._mmap = None

    def unlink(self):
        K.check_killed()
        if K.segments.get(self._name) is not self._seg:
            raise FileNotFoundError(self._name)
        del K.segments[self._name]
        K.seg_virtual.pop(self._name, None)
        _rt_unregister(self._name)       # SharedMemory.unlink() unregisters the name from the caller's tracker
        emit("shm_unlink", self._name)
        K.step("shm.unlink", self._name)

    def __del__(self):
        try:
            if self._mmap is not None:
                self._mmap.close()
        except Exception:  # noqa
            pass


# multiprocessing.resource_tracker, modelled only where a harness asks for it (K.cfg["rtracker"]; DESIGN section 12): on CPython 3.12
# every SharedMemory - created or attached - is registered with the calling process's tracker, which unlinks whatever is still
# registered when that process goes away.  One tracker per process: the processes concerned are forked before their parent ever
# touched shared memory, so each starts its own on first use.
def _rt_register(name):
    if K.cfg.get("rtracker"):
        p = K.cur().proc
        if not hasattr(p, "rt_names"):
            p.rt_names = set()
        p.rt_names.add(name)


def _rt_unregister(name, rtype=None):
    if K is not None and K.cfg.get("rtracker"):
        getattr(K.cur().proc, "rt_names", set()).discard(str(name).lstrip("/"))


def rt_flush(proc):
    """The process is gone (exit or kill): its tracker cleans up what it still had registered."""
    for name in sorted(getattr(proc, "rt_names", ())):
        if name in K.segments:
            del K.segments[name]
            K.seg_virtual.pop(name, None)
            K.probe("resource_tracker_unlinked_leaked_segment")
            K.log("rt.unlink", proc.name, name)
            emit("shm_unlink", name)
    if hasattr(proc, "rt_names"):
        proc.rt_names.clear()


def segments_total():
    return sum(K.seg_virtual.values())


# ------------------------------------------------------------------ multiprocessing / pools
class FProcess:
    def __init__(self, target=None, args=(), kwargs=None, name=None, group=None, daemon=None):
        self.target, self.args, self.kwargs = target, args, kwargs or {}
        self.proc = None
        self.pname = name
        self.name = name

    def start(self):
        parent = K.cur().proc
        name = K.name_child(parent, self.target, self.args, self.kwargs)
        self.proc = SimProc(K, name, parent)
        self.name = name
        tgt, a, kw = self.target, self.args, self.kwargs
        self.proc.main = K.spawn(name, lambda: tgt(*a, **kw), self.proc)
        K.step("pstart", name)

    @property
    def exitcode(self):
        return self.proc.exitcode if self.proc else None

    @property
    def pid(self):
        return self.proc.pid if self.proc else None

    def is_alive(self):
        return self.proc is not None and self.proc.exitcode is None

    def join(self, timeout=None):
        K.block(lambda: self.proc.exitcode is not None, None if timeout is None else int(timeout * 1e9), "pjoin", self.proc.name)

    def kill(self):
        K.kill(self.proc, "by-parent")
        K.step("pkill", self.proc.name)

    terminate = kill


class FMpCtx:
    Process = FProcess


class FFuture:
    def __init__(self):
        self._done, self._res, self._exc = False, None, None

    def done(self):
        return self._done

    def result(self, timeout=None):
        K.block(lambda: self._done, None, "fut.result")
        if self._exc:
            raise self._exc
        return self._res

    def exception(self, timeout=None):
        K.block(lambda: self._done, None, "fut.exc")
        return self._exc

    def cancel(self):
        return False


class FPool:
    def __init__(self, max_workers=None, *a, **kw):
        self.max, self.n, self.running, self.queue = max_workers or 4, 0, 0, []
        self.proc = K.cur().proc
        self.trace_fn = K.cfg.get("pool_trace_fn")

    def submit(self, fn, *a, **kw):
        fut = FFuture()
        emit("pool_submit", self, fn, a)
        self.queue.append((fut, fn, a, kw))
        self._pump()
        K.step("pool.submit", getattr(fn, "__name__", "?"))
        return fut

    def _pump(self):
        while self.queue and self.running < self.max:
            fut, fn, a, kw = self.queue.pop(0)
            self.running += 1
            self.n += 1

            def body(fut=fut, fn=fn, a=a, kw=kw):
                emit("pool_job_start", self, fn, a)
                try:
                    fut._res = fn(*a, **kw)
                except Exception as e:  # SimKilled passes through
                    fut._exc = e
                finally:
                    fut._done = True
                    self.running -= 1
                    emit("pool_job_end", self, fn, a)
                self._pump()
            K.spawn(f"{self.proc.name}.pool{self.n}", body, self.proc, trace_fn=self.trace_fn)

    def map(self, fn, *iterables):
        # order-preserving, evaluated inline (used by scheduler.graph.precompute: pure function)
        return [fn(*args) for args in zip(*iterables)]

    def shutdown(self, wait=True, cancel_futures=False):
        if cancel_futures:
            self.queue.clear()

    def __enter__(self):
        return self

    def __exit__(self, *a):
        return False


inline_pools = False    # set by the harness around code under test that runs outside the kernel (precompute)


class InlinePool:
    """Order-preserving map evaluated in the calling thread (scheduler.graph.precompute maps a pure function over disjoint
    components): a loop that never ends stays interruptible by the wall-clock alarm instead of hiding in a pool thread."""

    def map(self, fn, *iterables):
        return [fn(*args) for args in zip(*iterables)]

    def shutdown(self, wait=True, cancel_futures=False):
        pass

    def __enter__(self):
        return self

    def __exit__(self, *a):
        return False


def fwait(futs, timeout=None, return_when="ALL_COMPLETED"):
    futs = list(futs)
    if return_when == "FIRST_COMPLETED":
        def pred():
            return any(f._done for f in futs) or not futs
    else:
        def pred():
            return all(f._done for f in futs)
    K.block(pred, None, "fut.wait", return_when)
    return {f for f in futs if f._done}, {f for f in futs if not f._done}


class FLock:
    def __init__(self):
        self.held = False

    def acquire(self, blocking=True, timeout=-1):
        if not blocking:
            if self.held:
                return False
            self.held = True
            return True
        # block() is a scheduling point even when the lock is free, so several threads can be past their check at once: the lock
        # is taken only by the one that still finds it free when it runs again (nothing is scheduled between block()'s return
        # value and the assignment)
        while not K.block(lambda: not self.held, None, "lock.acq"):
            pass
        self.held = True
        return True

    def release(self):
        if not self.held:
            raise RuntimeError("release unlocked lock")
        self.held = False

    def locked(self):
        return self.held

    def __enter__(self):
        self.acquire()

    def __exit__(self, *a):
        self.release()


# ------------------------------------------------------------------ file system
class FakeFile:
    def __init__(self, fs, path, mode):
        self.fs, self.path, self.mode, self.pos = fs, path, mode, 0
        if "r" in mode and path not in fs.files:
            raise FileNotFoundError(path)
        if "w" in mode:
            fs.files[path] = b""
        elif "a" in mode:
            fs.files.setdefault(path, b"")

    def write(self, b):
        K.check_killed()
        fs = self.fs
        fs.nwrite += 1
        b = bytes(b)
        f = fs.plan.get(("write", fs.nwrite))
        if f == "eio":
            K.fire("disk_write_eio")
            raise OSError(5, "EIO (injected)")
        if f == "enospc":
            K.fire("disk_write_enospc")
            raise OSError(28, "ENOSPC (injected)")
        if f == "short":
            # a short write that the caller does not check: only a prefix reaches the file
            K.fire("disk_short_write")
            b = b[: max(0, len(b) // 2)]
        fs.files[self.path] += b
        K.step("fs.write", self.path, len(b))
        return len(b)

    def read(self, n=-1):
        K.check_killed()
        fs = self.fs
        fs.nread += 1
        if fs.plan.get(("read", fs.nread)) == "eio":
            K.fire("disk_read_eio")
            raise OSError(5, "EIO (injected)")
        data = fs.files[self.path]
        out = data[self.pos:] if n is None or n < 0 else data[self.pos:self.pos + n]
        self.pos += len(out)
        K.step("fs.read", self.path, len(out))
        return out

    def close(self):
        pass

    def __enter__(self):
        return self

    def __exit__(self, *a):
        return False


class FakeFS:
    """In-memory files.  plan: {("write", n): "eio"|"enospc"|"short", ("read", n): "eio", ("open_r", n): "missing"}"""

    def __init__(self, kernel):
        self.files, self.nwrite, self.nread, self.nopen_r = {}, 0, 0, 0
        self.dirs = set()
        self.plan = {}
        self.tmp = itertools.count()

    def open(self, path, mode="r", *a, **kw):
        if "r" in mode:
            self.nopen_r += 1
            if self.plan.get(("open_r", self.nopen_r)) == "missing":
                K.fire("disk_file_missing")
                raise FileNotFoundError(str(path) + " (injected)")
        return FakeFile(self, str(path), mode)


class FakeTmpDir:
    def __init__(self, *a, **k):
        self.name = f"/simtmp/{next(K.fs.tmp)}"
        K.fs.dirs.add(self.name)

    def cleanup(self):
        pass

    def __enter__(self):
        return self.name

    def __exit__(self, *a):
        return False


# ------------------------------------------------------------------ env shim
class EnvShim:
    """Stands in for the `os` module inside selected cascade modules: environ is per simulated process."""

    def __init__(self, real_os):
        self._os = real_os

    def __getattr__(self, n):
        return getattr(self._os, n)

    @property
    def environ(self):
        c = K.cur() if K else None
        return c.proc.env if c else self._os.environ

    def getenv(self, key, default=None):
        return self.environ.get(key, default)


# ------------------------------------------------------------------ install
_installed = False
SEAMS = {}  # what was replaced, for the audit / evidence


def insim():
    return K is not None and K.in_sim()


def install():
    """Global dispatchers; must run before cascade is imported."""
    global _installed
    if _installed:
        return
    _installed = True
    if "cascade" in sys.modules or "zmq" in sys.modules:
        raise RuntimeError("sim.fakes.install() must run before cascade / zmq are imported")
    import time, socket, uuid, atexit, signal, subprocess, tempfile, os, builtins  # noqa
    import logging.config
    import multiprocessing, multiprocessing.shared_memory as msm, multiprocessing.resource_tracker as rt
    import concurrent.futures as cf

    sys.modules["zmq"] = make_zmq()

    def disp(real, fake):
        def f(*a, **kw):
            return fake(*a, **kw) if insim() else real(*a, **kw)
        f.__name__ = getattr(real, "__name__", "f")
        f.__verif_real__ = real
        return f

    def mono():
        # a monotonic clock counts from an arbitrary origin (boot), per machine: unrelated to the wall clock's epoch, so code
        # that mixes the two is wrong in the simulation exactly as it is in reality.  Origin = a function of the top-level process.
        p = K.cur().proc
        off = getattr(p, "_mono_off", None)
        if off is None:
            root = p
            while root.parent is not None:
                root = root.parent
            from .kernel import splitmix64
            off = p._mono_off = 1_000_000_000_000 + splitmix64(root.name.split(".")[0]) % 40_000_000_000_000
        return K.now - K.t0 + off
    time.time_ns = disp(time.time_ns, lambda: K.now)
    time.time = disp(time.time, lambda: K.now / 1e9)
    time.monotonic_ns = disp(time.monotonic_ns, mono)
    time.monotonic = disp(time.monotonic, lambda: mono() / 1e9)
    time.perf_counter_ns = disp(time.perf_counter_ns, mono)
    time.perf_counter = disp(time.perf_counter, lambda: mono() / 1e9)
    time.sleep = disp(time.sleep, lambda s: K.sleep(int(s * 1e9)))

    real_socket = socket.socket

    class SockDisp:
        def __new__(cls, *a, **kw):
            return FUdpSock(*a, **kw) if insim() else real_socket(*a, **kw)
    socket.socket = SockDisp

    multiprocessing.get_context = disp(multiprocessing.get_context, lambda m=None: FMpCtx())
    real_shm = msm.SharedMemory

    class ShmDisp:
        def __new__(cls, *a, **kw):
            return FShm(*a, **kw) if insim() else real_shm(*a, **kw)
    msm.SharedMemory = ShmDisp
    rt.unregister = disp(rt.unregister, _rt_unregister)

    real_tpe = cf.ThreadPoolExecutor

    class TpeDisp:
        def __new__(cls, *a, **kw):
            if insim():
                return FPool(*a, **kw)
            if inline_pools:
                return InlinePool()
            return real_tpe(*a, **kw)
    cf.ThreadPoolExecutor = TpeDisp
    cf.wait = disp(cf.wait, fwait)

    def fake_uuid4():
        import uuid as u
        forced = K.cfg.get("uuid_force")
        if forced is not None:
            v = forced(K)
            if v is not None:
                return u.UUID(int=v, version=4)
        # distinct within a run even when every draw is 0 (a shrunk trace): the counter sits in the leading hex digits, which is
        # what callers truncate to (reader ids are str(uuid4())[:8]); collisions are injected explicitly through cfg["uuid_force"]
        n = next(K.uuid_ctr)
        return u.UUID(int=(((K.ch.draw(1 << 16) << 16) | (n & 0xFFFF)) << 96) | n, version=4)
    uuid.uuid4 = disp(uuid.uuid4, fake_uuid4)

    def fake_atexit(f, *a, **kw):
        K.cur().proc.atexit.append(lambda: f(*a, **kw))
        return f
    atexit.register = disp(atexit.register, fake_atexit)
    signal.signal = disp(signal.signal, lambda *a: None)
    logging.config.dictConfig = disp(logging.config.dictConfig, lambda c: None)

    def fake_run(cmd, **kw):
        class R:
            stdout = b"AVAIL\n%d\n" % K.cfg.get("devshm", 1 << 30)
            returncode = 0
        return R()
    subprocess.run = disp(subprocess.run, fake_run)

    class FakePopen:
        def __init__(self, cmd, **kw):
            K.popen_log.append((list(cmd), kw.get("env")))
            emit("popen", list(cmd), kw.get("env"))
            self.pid = 4242
    real_popen = subprocess.Popen

    class PopenDisp:
        def __new__(cls, *a, **kw):
            return FakePopen(*a, **kw) if insim() else real_popen(*a, **kw)
    subprocess.Popen = PopenDisp

    real_tmpdir = tempfile.TemporaryDirectory

    class TmpDisp:
        def __new__(cls, *a, **kw):
            return FakeTmpDir(*a, **kw) if insim() else real_tmpdir(*a, **kw)
    tempfile.TemporaryDirectory = TmpDisp

    # the in-memory file system is also what os.* sees for its paths (a refactor that asks os.path.exists() about a spill
    # file must get the simulated answer, not the real disk's)
    def _simpath(p):
        return isinstance(p, (str, bytes, os.PathLike)) and str(os.fspath(p)).startswith("/simtmp")

    def fsdisp(real, fake):
        def f(p, *a, **kw):
            return fake(str(os.fspath(p)), *a, **kw) if insim() and _simpath(p) else real(p, *a, **kw)
        f.__name__ = getattr(real, "__name__", "f")
        return f

    def _isdir(p):
        return any(k.startswith(p.rstrip("/") + "/") for k in K.fs.files) or p.rstrip("/") in K.fs.dirs

    def _remove(p):
        if p not in K.fs.files:
            raise FileNotFoundError(p)
        del K.fs.files[p]
        K.step("fs.remove", p)

    def _listdir(p):
        pre = p.rstrip("/") + "/"
        return sorted({k[len(pre):].split("/")[0] for k in K.fs.files if k.startswith(pre)})

    def _rename(src, dst):
        if src not in K.fs.files:
            raise FileNotFoundError(src)
        K.fs.files[str(os.fspath(dst))] = K.fs.files.pop(src)
        K.step("fs.rename", src)
    os.path.exists = fsdisp(os.path.exists, lambda p: p in K.fs.files or _isdir(p))
    os.path.isfile = fsdisp(os.path.isfile, lambda p: p in K.fs.files)
    os.path.isdir = fsdisp(os.path.isdir, _isdir)
    os.path.getsize = fsdisp(os.path.getsize, lambda p: len(K.fs.files[p]))
    os.remove = fsdisp(os.remove, _remove)
    os.unlink = fsdisp(os.unlink, _remove)
    os.listdir = fsdisp(os.listdir, _listdir)
    os.makedirs = fsdisp(os.makedirs, lambda p, *a, **kw: K.fs.dirs.add(p.rstrip("/")))
    os.mkdir = fsdisp(os.mkdir, lambda p, *a, **kw: K.fs.dirs.add(p.rstrip("/")))
    os.rename = fsdisp(os.rename, _rename)
    os.replace = fsdisp(os.replace, _rename)

    # now import cascade and do the targeted module-attribute patches
    import cascade.shm.api, cascade.executor.executor, cascade.executor.runner.entrypoint  # noqa
    import cascade.shm.dataset, cascade.shm.disk, cascade.gateway.router  # noqa
    shim = EnvShim(os)
    cascade.shm.api.os = shim
    cascade.executor.executor.os = shim
    cascade.executor.runner.entrypoint.os = shim
    cascade.gateway.router.os = shim
    import threading as _th
    th = types.SimpleNamespace(Lock=lambda: FLock() if insim() else _th.Lock(), local=_th.local)
    cascade.shm.dataset.threading = th

    def sim_open(path, mode="r", *a, **kw):
        if insim():
            return K.fs.open(path, mode)
        return builtins.open(path, mode, *a, **kw)
    cascade.shm.disk.open = sim_open
    cascade.gateway.router.open = sim_open
