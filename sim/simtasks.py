"""Symbolic task bodies (DESIGN.md section 6).  Importable module so cloudpickle pickles by reference.

A task returns a digest of everything it received, so a delivered value identifies exactly which
arguments arrived in which positions.  Hooks (set per run by the harness) observe starts and inject faults.
"""
import zlib
import collections
import hashlib

calls = collections.Counter()
on_start = None     # fn(tag, args, kwargs) called at the first line of every task body
on_yield = None     # fn(tag, i) called before the i-th value of a generator task is produced


def reset():
    global on_start, on_yield
    calls.clear()
    on_start = None
    on_yield = None


def dig(*parts):
    return hashlib.sha1(repr(parts).encode()).hexdigest()[:12]


class Blob:
    """A value with a custom, zero-copy serde (registered through JobInstance.serdes): deserialising keeps a view into the
    shared-memory buffer, as numpy.frombuffer does, so the buffer can not be closed while the value is alive."""

    def __init__(self, data):
        self.data = data

    def bytes(self):
        return bytes(self.data)

    def __eq__(self, other):
        return isinstance(other, Blob) and self.bytes() == other.bytes()

    def __hash__(self):
        return hash(self.bytes())

    def __repr__(self):
        return f"Blob({self.bytes()!r})"

    def __reduce__(self):
        return (Blob, (self.bytes(),))


def blob_ser(v):
    return v.bytes()


def blob_des(b):
    return Blob(memoryview(b))


class make:
    """Picklable callable.  k == 1 -> returns one value; k > 1 -> generator of k values.
    pad: extra bytes appended to the value so dataset sizes vary.  nyield: how many values are actually
    produced (defaults to k; != k exercises the count-mismatch clause)."""

    def __init__(self, tag, k, pad=0, nyield=None, blob=False):
        self.tag, self.k, self.pad, self.blob = tag, k, pad, blob
        self.nyield = k if nyield is None else nyield
        self.__name__ = f"task_{tag}"

    def _val(self, base, i):
        v = f"{base}/{i}" if self.k > 1 else base
        v = v + ("." * self.pad)
        return Blob(v.encode()) if getattr(self, "blob", False) else v

    def __call__(self, *args, **kwargs):
        calls[self.tag] += 1
        if on_start is not None:
            on_start(self.tag, args, kwargs)
        base = dig(self.tag, args, sorted(kwargs.items()))
        if self.k == 1:
            return self._val(base, 0)
        return self._gen(base)

    def _gen(self, base):
        for i in range(self.nyield):
            if on_yield is not None:
                on_yield(self.tag, i)
            if i >= self.k and (zlib.crc32(self.tag.encode()) & 1) == 0:
                # half of the generators that yield more than their node declares yield None as their first surplus value
                yield None
                continue
            yield self._val(base, i)
