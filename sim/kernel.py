"""Baton-passing deterministic kernel (DESIGN.md 3.1).

Every simulated process / pool thread is a real Python thread that only runs while it holds
the baton.  Exactly one runs at a time, until it reaches a *seam* (``step`` / ``block``);
who runs next is drawn from the choice stream.  Time is virtual.
"""
import hashlib
import heapq
import random
import sys
import threading
import traceback


class SimKilled(BaseException):
    """Raised inside a simulated thread whose process was killed (or at the end of the run)."""


class SpinDetected(BaseException):
    """Raised by the spin watchdog: a loop that neither waits nor reaches a seam."""


class HarnessError(Exception):
    """The simulator itself failed (watchdog, unsimulated seam, replay mismatch)."""


def splitmix64(*parts):
    x = 0x9E3779B97F4A7C15
    for p in parts:
        if isinstance(p, str):
            p = int.from_bytes(hashlib.sha256(p.encode()).digest()[:8], "big")
        x = (x ^ (p & 0xFFFFFFFFFFFFFFFF)) & 0xFFFFFFFFFFFFFFFF
        x = (x + 0x9E3779B97F4A7C15) & 0xFFFFFFFFFFFFFFFF
        z = x
        z = ((z ^ (z >> 30)) * 0xBF58476D1CE4E5B9) & 0xFFFFFFFFFFFFFFFF
        z = ((z ^ (z >> 27)) * 0x94D049BB133111EB) & 0xFFFFFFFFFFFFFFFF
        x = z ^ (z >> 31)
    return x


class Choices:
    """The one stream every decision is drawn from.  Generation: random.Random(seed); replay: a
    recorded trace, read leniently (out of range / exhausted -> 0) so the trace itself can be shrunk."""

    def __init__(self, seed=0, trace=None):
        self.rng = random.Random(seed)
        self.trace = trace
        self.pos = 0
        self.rec = []

    def draw(self, n):
        if n <= 1:
            return 0
        if self.trace is not None:
            v = self.trace[self.pos] if self.pos < len(self.trace) else 0
            self.pos += 1
            if not (0 <= v < n):
                v = 0
        else:
            v = self.rng.randrange(n)
        self.rec.append(v)
        return v

    def uniform(self, lo, hi, grain=1000):
        if hi <= lo:
            return lo
        return lo + (hi - lo) * self.draw(grain) // grain

    def chance(self, pct):
        """True with probability pct/100 (draws only if 0 < pct)."""
        if pct <= 0:
            return False
        return self.draw(100) < pct


class SimProc:
    def __init__(self, kernel, name, parent=None, toplevel=False):
        self.kernel, self.name, self.parent = kernel, name, parent
        self.env = dict(parent.env) if parent else {}
        self.exitcode = None
        self.threads = []
        self.atexit = []
        self.main = None
        self.toplevel = toplevel
        self.nseam = 0          # seam calls made by this process (all its threads): logical fault trigger
        self.killed_at = None
        self.stalled_until = 0
        self.pid = 1000 + len(kernel.procs)
        self.children = []
        if parent is not None:
            parent.children.append(self)
        kernel.procs.append(self)

    def alive(self):
        return self.exitcode is None and self.main is not None

    def start(self, fn, name=None):
        self.main = self.kernel.spawn(name or self.name, fn, self)
        return self


class SimThread:
    def __init__(self, kernel, name, fn, proc):
        self.kernel, self.name, self.fn, self.proc = kernel, name, fn, proc
        self.lock = threading.Lock()
        self.lock.acquire()
        self.state = "runnable"  # runnable | blocked | done
        self.pred = None
        self.deadline = None
        self.killed = False
        self.exc = None
        self.trace_fn = None
        kernel.threads.append(self)
        proc.threads.append(self)
        self.real = threading.Thread(target=self._body, name=name, daemon=True)
        self.real.start()

    def _body(self):
        k = self.kernel
        self.lock.acquire()
        k.tls.t = self
        code = 0
        try:
            if self.killed:
                raise SimKilled()
            if self.trace_fn is not None:
                sys.settrace(self.trace_fn)
            self.fn()
        except SimKilled:
            code = -9
        except SpinDetected as e:
            self.exc = e
            code = 1
            k.crashes.append((self.name, "SpinDetected", ""))
        except SystemExit as e:
            code = e.code if isinstance(e.code, int) else (0 if e.code is None else 1)
        except BaseException as e:  # noqa
            self.exc = e
            code = 1
            k.crashes.append((self.name, repr(e)[:300], traceback.format_exc()))
        finally:
            sys.settrace(None)
        self.state = "done"
        if self.proc.main is self:
            if code != -9 and not self.killed and self.proc.toplevel:
                # atexit handlers run only for top-level processes on a normal/exception exit
                for f in reversed(self.proc.atexit):
                    try:
                        f()
                    except SimKilled:
                        code = -9
                        break
                    except BaseException as e:  # noqa
                        k.crashes.append((self.name + ".atexit", repr(e)[:300], traceback.format_exc()))
            self.proc.exitcode = code
            k.log("exit", self.proc.name, code)
            for h in list(k.handlers.get("proc_exit", ())):
                try:
                    h(self.proc)
                except BaseException as e:  # noqa
                    k.crashes.append((self.name + ".proc_exit", repr(e)[:300], traceback.format_exc()))
            for t in self.proc.threads:  # pool threads die with the process
                if t is not self and t.state != "done":
                    t.killed = True
                    if t.state == "blocked":
                        t.state = "runnable"
        k._switch(dying=True)


class Kernel:
    STEP_NS = 10_000
    SPIN_WALL_S = 20.0

    def __init__(self, choices, max_steps=400_000, max_time_ns=3600 * 10**9):
        self.ch = choices
        self.now = 1_700_000_000 * 10**9
        self.t0 = self.now
        self.seq = 0
        self.steps = 0
        self.threads = []
        self.procs = []
        self.timers = []
        self.tls = threading.local()
        self.h = hashlib.sha256()
        self.crashes = []
        self.done_evt = threading.Event()
        self.end = None
        self.max_steps, self.max_time_ns = max_steps, max_time_ns
        self.tracelog = None      # list -> capture the full event log
        self.stop_when = None
        self.on_step = []         # invariants evaluated after every scheduling step
        self.seam_hooks = []      # fn(thread, kind, args) at every seam, before it is logged (fault triggers)
        self.fired = {}           # fault kind -> times it actually fired
        self.probes = {}          # rare-branch probes
        self.cfg = {}
        self.harness_error = None
        self.running = None
        self.slow = ()            # process names (a name also covers its children "name.x") that are scheduled rarely
        self.slow_factor = 25

    # ---- identity
    def cur(self):
        return getattr(self.tls, "t", None)

    def in_sim(self):
        return getattr(self.tls, "t", None) is not None

    def fire(self, kind, n=1):
        self.fired[kind] = self.fired.get(kind, 0) + n

    def probe(self, kind, n=1):
        self.probes[kind] = self.probes.get(kind, 0) + n

    # ---- logging (never draws, never reads real clocks)
    def log(self, kind, *args):
        self.seq += 1
        c = self.cur()
        line = f"{self.seq}|{self.now - self.t0}|{c.name if c else '-'}|{kind}|{args}"
        self.h.update(line.encode())
        if self.tracelog is not None:
            self.tracelog.append(line)

    def digest(self):
        return self.h.hexdigest()[:16]

    # ---- timers
    def at(self, when, fn):
        self.seq += 1
        heapq.heappush(self.timers, (when, self.seq, fn))

    # ---- thread api
    def spawn(self, name, fn, proc, trace_fn=None):
        t = SimThread(self, name, fn, proc)
        t.trace_fn = trace_fn
        self.log("spawn", name)
        return t

    def check_killed(self):
        c = self.cur()
        if c is not None and c.killed:
            raise SimKilled()

    def _seam(self, kind, args):
        c = self.cur()
        if c is None:
            raise HarnessError(f"seam {kind} reached outside a simulated thread")
        if c.killed:
            raise SimKilled()
        c.proc.nseam += 1
        for h in self.seam_hooks:
            h(c, kind, args)
        if c.killed:
            raise SimKilled()
        return c

    def step(self, kind, *args):
        """A scheduling point that does not block."""
        self._seam(kind, args)
        self.log(kind, *args)
        self._switch()
        self.check_killed()

    def block(self, pred, timeout_ns=None, kind="block", *args):
        """Park until pred() or the deadline.  Returns True iff pred() held."""
        c = self._seam(kind, args)
        self.log(kind, *args)
        if not pred():
            c.state, c.pred = "blocked", pred
            c.deadline = None if timeout_ns is None else self.now + max(0, int(timeout_ns))
        self._switch()
        c.pred = c.deadline = None
        self.check_killed()
        return pred()

    def sleep(self, ns):
        self.block(lambda: False, ns, "sleep", int(ns))

    def stall(self, proc, ns):
        """The process (all its threads) does not run for ns of virtual time: a stopped / swapped-out / starved node."""
        proc.stalled_until = max(proc.stalled_until, self.now + int(ns))
        self.log("stall", proc.name, int(ns))
        self.fire("stall")

    def kill(self, proc, why="kill"):
        """SIGKILL: every thread of the process raises SimKilled at its next seam; children survive."""
        if proc.exitcode is not None:
            return
        self.log("kill", proc.name, why)
        proc.killed_at = self.now
        for t in proc.threads:
            if t.state != "done":
                t.killed = True
                if t.state == "blocked":
                    t.state = "runnable"

    # ---- scheduler
    def _candidates(self):
        out = []
        now = self.now
        for t in self.threads:
            st = t.state
            if t.proc.stalled_until > now and not t.killed:
                continue        # a stalled (SIGSTOPped, swapped out) process: none of its threads runs until it resumes
            if st == "runnable":
                out.append(t)
            elif st == "blocked":
                if t.killed or (t.deadline is not None and t.deadline <= now) or t.pred():
                    out.append(t)
        return out

    def _switch(self, dying=False):
        me = self.cur()
        while True:
            if self.end is None:
                self.steps += 1
                self.now += self.STEP_NS
                if self.steps > self.max_steps:
                    self._finish("step_cap")
                elif self.now - self.t0 > self.max_time_ns:
                    self._finish("time_cap")
                elif self.stop_when is not None and self.stop_when():
                    self._finish("stopped")
            if self.end is None:
                for f in self.on_step:
                    f()
            while self.timers and self.timers[0][0] <= self.now:
                _, _, fn = heapq.heappop(self.timers)
                fn()
            cands = self._candidates()
            if cands:
                break
            nxt = [max(t.deadline, t.proc.stalled_until) for t in self.threads if t.state == "blocked" and t.deadline is not None]
            nxt += [p.stalled_until for p in self.procs if p.stalled_until > self.now and any(t.state != "done" for t in p.threads)]
            if self.timers:
                nxt.append(self.timers[0][0])
            if not nxt:
                if self.end is None:
                    live = [t for t in self.threads if t.state != "done"]
                    self._finish("quiescent" if not live else "deadlock")
                if all(t.state == "done" for t in self.threads):
                    self.done_evt.set()
                    return
                continue
            self.now = max(self.now, min(nxt))
        if self.end is not None:
            nxt_t = cands[0]
        elif self.slow and len(cands) > 1:
            # stalled / slow nodes: threads of the named processes get a small share of the scheduling decisions
            ws = [1 if any(t.proc.name == n or t.proc.name.startswith(n + ".") for n in self.slow) else self.slow_factor for t in cands]
            r = self.ch.draw(sum(ws))
            i = 0
            while r >= ws[i]:
                r -= ws[i]
                i += 1
            nxt_t = cands[i]
        else:
            nxt_t = cands[self.ch.draw(len(cands))]
        if nxt_t.state == "blocked":
            nxt_t.state = "runnable"
        self.running = nxt_t
        if nxt_t is me and not dying:
            return
        nxt_t.lock.release()
        if not dying and me is not None:
            me.lock.acquire()

    def _finish(self, why):
        """End of the run: everything still alive is killed and unwound."""
        self.end = why
        self.log("end", why)
        self.timers.clear()
        self.live_at_end = [t.name for t in self.threads if t.state != "done"]
        for t in self.threads:
            if t.state != "done":
                t.killed = True
                if t.state == "blocked":
                    t.state = "runnable"

    def run(self, wall_timeout=120):
        """Called from the (non-simulated) harness thread."""
        cands = self._candidates()
        if not cands:
            return "empty"
        first = cands[self.ch.draw(len(cands))]
        self.running = first
        # cyclic garbage collection runs finalisers at allocation-count dependent points of whichever thread happens to run:
        # off during a simulation (reference counting still frees promptly); the driver collects between runs
        import gc
        gc_was = gc.isenabled()
        gc.disable()
        try:
            return self._run_loop(first, wall_timeout)
        finally:
            if gc_was:
                gc.enable()

    def _run_loop(self, first, wall_timeout):
        first.lock.release()
        import time as _t
        t_end = _t.monotonic() + wall_timeout
        last = (-1, 0)
        while not self.done_evt.wait(self.SPIN_WALL_S):
            # no end yet.  If not a single scheduling step happened during a whole SPIN_WALL_S of wall time, the thread that
            # holds the baton is looping without ever reaching a seam (a busy loop in the code under test): make it raise
            # SpinDetected, which the harnesses report as a spin.  A run that merely is long keeps stepping.
            if self.steps == last[0]:
                t = self.running
                real = getattr(t, "real", None)
                if real is not None and real.ident is not None and real.is_alive() and t.state != "done" and last[1] < 3:
                    import ctypes
                    ctypes.pythonapi.PyThreadState_SetAsyncExc(ctypes.c_ulong(real.ident), ctypes.py_object(SpinDetected))
                    self.spin_injected = getattr(self, "spin_injected", 0) + 1
                    last = (self.steps, last[1] + 1)
                    continue
            else:
                last = (self.steps, 0)
            if _t.monotonic() > t_end:
                import faulthandler
                faulthandler.dump_traceback(file=sys.stderr)
                raise HarnessError("harness watchdog: simulation did not end within wall timeout")
        return self.end


class wall_alarm:
    """Context manager (main thread only): raises SpinDetected if the body does not finish within `seconds` of wall time.
    For code under test that runs outside the kernel (precompute, lowering) and might loop for ever."""

    def __init__(self, seconds):
        self.seconds = seconds
        self.on = False

    def __enter__(self):
        import signal
        if threading.current_thread() is threading.main_thread():
            def _alarm(signum, frame):
                raise SpinDetected()
            self.old = signal.signal(signal.SIGALRM, _alarm)
            signal.setitimer(signal.ITIMER_REAL, self.seconds)
            self.on = True
            from . import fakes
            self.fakes = fakes
            fakes.inline_pools = True
        return self

    def __exit__(self, *a):
        if self.on:
            import signal
            signal.setitimer(signal.ITIMER_REAL, 0)
            signal.signal(signal.SIGALRM, self.old)
            self.fakes.inline_pools = False
        return False
