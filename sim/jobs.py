"""Job plans: JSON-able descriptions of a job DAG + cluster, builders, an independent reference
interpreter, and shrink candidates (DESIGN.md section 6)."""
import copy

from . import simtasks

_FUNC_CACHE = {}


def gen_job_plan(rng, nmax=14, max_out=4, ncomp_max=4, gpu=True, p_empty=0.03, p_collide=0.04):
    """Random DAG: several weakly connected components, multi-output tasks, positional / keyword edges,
    static args, multi-edges, isolated tasks, the empty job."""
    if rng.random() < p_empty:
        n = 0
    elif rng.random() < 0.15:
        n = rng.randint(1, 3)
    else:
        n = rng.randint(1, nmax)
    ncomp = rng.randint(1, ncomp_max)
    gpu_p = rng.choice([0, 0, 0, 0.2]) if gpu else 0
    shape = rng.choice(["random", "random", "chain", "fan", "layered"])
    tasks = []
    names = [f"t{i}" for i in range(n)]
    wide = None
    if n >= 2 and rng.random() < p_collide:
        # two DIFFERENT datasets whose task and output names concatenate to the same string: ("m", "10") and ("m1", "0")
        wide, other = rng.sample(range(n), 2)
        names[wide], names[other] = "m", "m1"
    for i in range(n):
        name = names[i]
        nout = rng.choice([1, 1, 1, 2, 3, max_out])
        if i == wide:
            nout = 11
        comp = rng.randrange(ncomp)
        cands = [t for t in tasks if t["comp"] == comp]
        inputs = []
        nin = 0
        if cands and rng.random() < 0.85:
            nin = rng.randint(1, 3)
        if shape == "chain" and cands:
            cands, nin = cands[-1:], max(1, min(nin, 2))
        elif shape == "fan" and cands:
            cands = cands[:1] if rng.random() < 0.7 else cands
        elif shape == "layered" and cands:
            cands = cands[-3:]
        pos = 0
        for p in range(nin):
            src = rng.choice(cands)
            out = str(rng.randrange(src["nout"]))
            if rng.random() < 0.3:
                inputs.append([src["name"], out, "kw", f"k{p}"])
            else:
                inputs.append([src["name"], out, "ps", pos])
                pos += 1
        static_ps = {}
        if rng.random() < 0.4:
            static_ps[str(pos)] = rng.randint(0, 9)
        static_kw = {"s": rng.randint(0, 9)} if rng.random() < 0.4 else {}
        # a static value for a parameter that an edge also feeds (e.g. a default recorded by the builder): the edge wins
        for e in inputs:
            if rng.random() < 0.12:
                if e[2] == "kw":
                    static_kw[e[3]] = rng.randint(10, 19)
                else:
                    static_ps[str(e[3])] = rng.randint(10, 19)
        tasks.append(dict(name=name, nout=nout, comp=comp, inputs=inputs, static_ps=static_ps, static_kw=static_kw,
                          gpu=rng.random() < gpu_p, pad=rng.choice([0, 0, 0, 5, 200])))
    allds = [[t["name"], str(o)] for t in tasks for o in range(t["nout"])]
    if allds:
        mode = rng.random()
        if mode < 0.1:
            ext = []
        elif mode < 0.2:
            ext = list(allds)
        else:
            ext = rng.sample(allds, rng.randint(1, min(5, len(allds))))
    else:
        ext = []
    return dict(tasks=tasks, ext=ext, edge_seed=rng.randrange(1 << 30))


def gen_cluster_plan(rng, job, hmax=4, wmax=3):
    hosts, wph = rng.randint(1, hmax), rng.randint(1, wmax)
    ws = [[h, w] for h in range(hosts) for w in range(wph)]
    need_gpu = any(t["gpu"] for t in job["tasks"])
    if need_gpu or rng.random() < 0.2:
        # gpu workers: the first g workers of each chosen host (as Executor assigns them: idx < CASCADE_GPU_COUNT)
        gpus = {}
        hs = list(range(hosts))
        rng.shuffle(hs)
        for h in hs[: rng.randint(1, hosts)]:
            gpus[str(h)] = rng.randint(1, wph)
        if not need_gpu and rng.random() < 0.5:
            gpus = {}
    else:
        gpus = {}
    return dict(hosts=hosts, wph=wph, gpus=gpus)


def _func_for(tag, nout, pad, nyield=None, blob=False):
    from cascade.low.core import TaskDefinition
    key = (tag, nout, pad, nyield, blob)
    if key not in _FUNC_CACHE:
        _FUNC_CACHE[key] = TaskDefinition.func_enc(simtasks.make(tag, nout, pad, nyield, blob))
    return _FUNC_CACHE[key]


def build_job(jp):
    from cascade.low.core import DatasetId, JobInstance, Task2TaskEdge, TaskDefinition, TaskInstance
    tasks, edges = {}, []
    for t in sorted(jp["tasks"], key=lambda t: t["name"]):
        outs = [str(o) for o in range(t["nout"])]
        tasks[t["name"]] = TaskInstance(
            definition=TaskDefinition(func=_func_for(t["name"], t["nout"], t.get("pad", 0), t.get("nyield"), bool(t.get("blob"))), environment=[],
                                      input_schema={}, output_schema={o: "Any" for o in outs}, needs_gpu=bool(t.get("gpu"))),
            static_input_kw=dict(t["static_kw"]), static_input_ps=dict(t["static_ps"]))
        for (src, out, kind, where) in t["inputs"]:
            edges.append(Task2TaskEdge(source=DatasetId(src, out), sink_task=t["name"],
                                       sink_input_kw=where if kind == "kw" else None,
                                       sink_input_ps=where if kind == "ps" else None))
    edges.sort(key=lambda e: (e.sink_task, repr(e.source), str(e.sink_input_kw), str(e.sink_input_ps)))
    if jp.get("edge_seed") is not None:
        # the order of a job's edge list carries no meaning: any (seeded) order, not only one grouped by sink
        import random
        random.Random(jp["edge_seed"]).shuffle(edges)
    job = JobInstance(tasks=tasks, edges=edges)
    if any(t.get("blob") for t in jp["tasks"]):
        from cascade.low.core import type_enc
        job.serdes = {type_enc(simtasks.Blob): ("sim.simtasks.blob_ser", "sim.simtasks.blob_des")}
    job.ext_outputs = [DatasetId(a, b) for a, b in jp["ext"]]
    return job


def build_env(cp):
    from cascade.low.core import Environment, Worker, WorkerId
    ws = {}
    for h in range(cp["hosts"]):
        g = cp["gpus"].get(str(h), 0)
        for w in range(cp["wph"]):
            ws[WorkerId(f"h{h}", f"w{w}")] = Worker(cpu=1, gpu=1 if w < g else 0, memory_mb=1024)
    return Environment(workers=ws)


def feasible(jp, cp):
    if cp["hosts"] < 1 or cp["wph"] < 1:
        return False
    if any(t["gpu"] for t in jp["tasks"]) and not any(v > 0 for v in cp["gpus"].values()):
        return False
    names = {t["name"]: t for t in jp["tasks"]}
    for t in jp["tasks"]:
        seen = set()
        for (src, out, kind, where) in t["inputs"]:
            if src not in names or int(out) >= names[src]["nout"] or (kind, where) in seen:
                return False
            seen.add((kind, where))
    for a, b in jp["ext"]:
        if a not in names or int(b) >= names[a]["nout"]:
            return False
    return True


def refeval_plan(jp):
    """Independent sequential reference: value of every dataset of a job plan (documented contract:
    static positional/keyword args, edges override, generator outputs bound to the key-sorted names)."""
    vals = {}
    done = set()
    tasks = {t["name"]: t for t in jp["tasks"]}
    while len(done) < len(tasks):
        progressed = False
        for name, t in tasks.items():
            if name in done or any((s, o) not in vals for (s, o, _, _) in t["inputs"]):
                continue
            args = []

            def put(i, v):
                while len(args) <= i:
                    args.append(None)
                args[i] = v
            for i, v in t["static_ps"].items():
                put(int(i), v)
            kw = dict(t["static_kw"])
            for (s, o, kind, where) in t["inputs"]:
                if kind == "ps":
                    put(where, vals[(s, o)])
                else:
                    kw[where] = vals[(s, o)]
            base = simtasks.dig(name, tuple(args), sorted(kw.items()))
            k, pad = t["nout"], t.get("pad", 0)
            keys = sorted(str(o) for o in range(k))
            produced = [(f"{base}/{i}" if k > 1 else base) + "." * pad for i in range(k)]
            if t.get("blob"):
                produced = [simtasks.Blob(v.encode()) for v in produced]
            for key, v in zip(keys, produced):
                vals[(name, key)] = v
            done.add(name)
            progressed = True
        if not progressed:
            raise ValueError("cyclic or dangling job plan")
    return vals


def shrink_job_candidates(jp):
    """Smaller job plans (drop a task with everything downstream re-wired to static args, drop ext outputs,
    drop edges, reduce outputs)."""
    tasks = jp["tasks"]
    for i in range(len(tasks) - 1, -1, -1):
        victim = tasks[i]["name"]
        c = copy.deepcopy(jp)
        c["tasks"] = [t for t in c["tasks"] if t["name"] != victim]
        for t in c["tasks"]:
            keep = []
            for e in t["inputs"]:
                if e[0] == victim:
                    if e[2] == "ps":
                        t["static_ps"][str(e[3])] = 0
                    else:
                        t["static_kw"][e[3]] = 0
                else:
                    keep.append(e)
            t["inputs"] = keep
        c["ext"] = [e for e in c["ext"] if e[0] != victim]
        yield c
    for i in range(len(jp["ext"])):
        c = copy.deepcopy(jp)
        del c["ext"][i]
        yield c
    for ti, t in enumerate(tasks):
        for ei in range(len(t["inputs"])):
            c = copy.deepcopy(jp)
            e = c["tasks"][ti]["inputs"].pop(ei)
            if e[2] == "ps":
                c["tasks"][ti]["static_ps"][str(e[3])] = 0
            else:
                c["tasks"][ti]["static_kw"][e[3]] = 0
            yield c
        if t["nout"] > 1:
            used = [int(e[1]) for tt in tasks for e in tt["inputs"] if e[0] == t["name"]] + [int(b) for a, b in jp["ext"] if a == t["name"]]
            if max(used, default=0) < t["nout"] - 1:
                c = copy.deepcopy(jp)
                c["tasks"][ti]["nout"] -= 1
                yield c
        if t.get("pad") or t["static_ps"] or t["static_kw"] or t.get("gpu"):
            c = copy.deepcopy(jp)
            c["tasks"][ti].update(pad=0, static_kw={}, gpu=False)
            c["tasks"][ti]["static_ps"] = {k: v for k, v in t["static_ps"].items() if any(e[2] == "ps" and str(e[3]) == k for e in t["inputs"])}
            if c != jp:
                yield c


def shrink_cluster_candidates(cp):
    if cp["hosts"] > 1:
        c = copy.deepcopy(cp)
        c["hosts"] -= 1
        c["gpus"] = {k: v for k, v in c["gpus"].items() if int(k) < c["hosts"]}
        yield c
    if cp["wph"] > 1:
        c = copy.deepcopy(cp)
        c["wph"] -= 1
        c["gpus"] = {k: min(v, c["wph"]) for k, v in c["gpus"].items()}
        yield c
    if cp["gpus"]:
        c = copy.deepcopy(cp)
        c["gpus"] = {}
        yield c
