#!/venv/bin/python
"""Evaluates a seeded change: confirms it in a scratch worktree (existing tests pass, demo fails with / passes without),
then applies it to /repo, runs the property's quick check, and undoes it.  Results go to /verif/seeded/<name>/meta.json.

usage: seedeval.py <name> <property> <patch.diff> <demo.py> [source meta.json] [--checks C01,C02]
"""
import json
import os
import shutil
import subprocess
import sys
import time

ROOT = os.path.dirname(os.path.abspath(__file__))


def sh(cmd, **kw):
    return subprocess.run(cmd, shell=True, capture_output=True, text=True, **kw)


def main():
    name, prop, patch, demo = sys.argv[1:5]
    src_meta = sys.argv[5] if len(sys.argv) > 5 and not sys.argv[5].startswith("--") else None
    checks = [prop]
    for a in sys.argv[5:]:
        if a.startswith("--checks"):
            checks = a.split("=", 1)[1].split(",")
    out = os.path.join(ROOT, "seeded", name)
    os.makedirs(out, exist_ok=True)
    if os.path.abspath(patch) != os.path.join(out, "patch.diff"):
        shutil.copy(patch, os.path.join(out, "patch.diff"))
    if demo != "-" and os.path.abspath(demo) != os.path.join(out, "demo.py"):
        shutil.copy(demo, os.path.join(out, "demo.py"))
    meta = dict(name=name, property=prop, ran=[])
    if os.path.exists(os.path.join(out, "meta.json")):
        old = json.load(open(os.path.join(out, "meta.json")))
        meta.update({k: old[k] for k in ("summary", "needs", "why_tests_pass", "origin") if old.get(k)})
    if src_meta and os.path.exists(src_meta):
        sm = json.load(open(src_meta))
        meta.update(summary=sm.get("summary"), needs=sm.get("needs"), why_tests_pass=sm.get("why_tests_pass"))
    wt = f"/tmp/sc/{name}"
    sh(f"git -C /repo worktree remove --force {wt}")
    r = sh(f"git -C /repo worktree add --detach {wt} HEAD")
    try:
        env = dict(os.environ, SRC=f"{wt}/src", PYTHONPATH=f"{wt}/src")
        if demo != "-":
            r = subprocess.run(["/venv/bin/python", os.path.join(out, "demo.py")], capture_output=True, text=True, env=env, timeout=300, cwd=wt)
            meta["demo_passes_without_change"] = r.returncode == 0
            meta["ran"].append(f"SRC={wt}/src python demo.py (clean HEAD {sh('git -C /repo rev-parse --short HEAD').stdout.strip()}) -> exit {r.returncode}")
        r = sh(f"git -C {wt} apply {os.path.join(out, 'patch.diff')}")
        meta["patch_applies"] = r.returncode == 0
        if r.returncode != 0:
            meta["apply_error"] = r.stderr[-300:]
        else:
            r = sh(f"cd {wt} && PYTHONPATH={wt}/src /venv/bin/python -m pytest -q -p no:cacheprovider --continue-on-collection-errors tests/earthkit_workflows 2>&1 | tail -1")
            meta["existing_tests_with_change"] = r.stdout.strip()
            meta["tests_pass_with_change"] = "133 passed" in r.stdout
            if demo != "-":
                r = subprocess.run(["/venv/bin/python", os.path.join(out, "demo.py")], capture_output=True, text=True, env=env, timeout=300, cwd=wt)
                meta["demo_fails_with_change"] = r.returncode != 0
                meta["ran"].append(f"SRC={wt}/src python demo.py (patched) -> exit {r.returncode}")
        # ---- our checks against the change: the scratch worktree (patched) stands for /repo; /repo itself is not touched
        if meta.get("patch_applies"):
            meta["checks"] = {}
            for c in checks:
                t0 = time.time()
                r = sh(f"cd {ROOT} && timeout 1500 ./check {c} --tier quick", env=dict(os.environ, VERIF_SHRINK_S="20", VERIF_REPO_SRC=f"{wt}/src",
                                                                                 VERIF_EVIDENCE_DIR=f"/tmp/sc/evidence-{name}"))
                lines = [l for l in r.stdout.splitlines() if l.startswith("VIOLATION") or l.startswith("  class=") or l.startswith("HARNESS-ERROR")]
                meta["checks"][c] = dict(exit=r.returncode, detected=r.returncode == 1, wall_s=round(time.time() - t0, 1), lines=lines[:6], summary=r.stdout.strip().splitlines()[-1:])
                meta["ran"].append(f"scratch worktree of /repo HEAD + patch.diff; VERIF_REPO_SRC=<worktree>/src ./check {c} --tier quick -> exit {r.returncode}")
    finally:
        sh(f"git -C /repo worktree remove --force {wt}")
        sh(f"rm -rf /tmp/sc/evidence-{name}")
    json.dump(meta, open(os.path.join(out, "meta.json"), "w"), indent=1)
    print(json.dumps({k: meta.get(k) for k in ("name", "property", "patch_applies", "tests_pass_with_change", "demo_passes_without_change", "demo_fails_with_change")}))
    for c, v in (meta.get("checks") or {}).items():
        print(" ", c, "DETECTED" if v["detected"] else f"MISSED (exit {v['exit']})", v["wall_s"], "s", v["lines"][:2])


if __name__ == "__main__":
    main()
