#!/venv/bin/python
"""Generic mutation sweep (sensitivity self-test, DESIGN.md section 11): small syntactic mutants of the anchored files are
placed in a scratch copy of /repo/src (never in /repo) and the owning property's quick check is run against the copy with
VERIF_REPO_SRC.  Prints killed / survived / harness-error per mutant and writes /verif/seeded/mutsweep.json.

usage: mutsweep.py [--per-file N] [--budget S] [--seed K] [--only file-substring]
"""
import argparse
import ast
import json
import os
import random
import shutil
import subprocess
import sys
import time

ROOT = os.path.dirname(os.path.abspath(__file__))
TARGETS = [  # (file under src/, checks that should notice)
    ("cascade/controller/notify.py", ["C03", "C04", "C01"]),
    ("cascade/controller/act.py", ["C03", "C04", "C02", "C01"]),
    ("cascade/scheduler/api.py", ["C03", "C02", "C04"]),
    ("cascade/scheduler/assign.py", ["C03", "C02", "C04"]),
    ("cascade/executor/comms.py", ["C06"]),
    ("cascade/executor/bridge.py", ["C06", "C05"]),
    ("cascade/executor/executor.py", ["C05", "C06"]),
    ("cascade/executor/data_server.py", ["C07"]),
    ("cascade/executor/runner/entrypoint.py", ["C01", "C02", "C05"]),
    ("cascade/executor/runner/runner.py", ["C01", "C10"]),
    ("cascade/executor/runner/memory.py", ["C01", "C05"]),
    ("cascade/shm/dataset.py", ["C08", "C09"]),
    ("cascade/shm/disk.py", ["C09"]),
    ("cascade/shm/algorithms.py", ["C09", "C08"]),
    ("cascade/shm/client.py", ["C09"]),
    ("cascade/gateway/router.py", ["C18"]),
    ("cascade/gateway/server.py", ["C18"]),
    ("cascade/low/into.py", ["C10"]),
]
FLIP = {ast.Lt: ast.LtE, ast.LtE: ast.Lt, ast.Gt: ast.GtE, ast.GtE: ast.Gt, ast.Eq: ast.NotEq, ast.NotEq: ast.Eq,
        ast.In: ast.NotIn, ast.NotIn: ast.In, ast.Is: ast.IsNot, ast.IsNot: ast.Is}


def mutants(src):
    """Yield (description, new source).  Line-preserving: one node replaced via its source segment."""
    tree = ast.parse(src)
    lines = src.split("\n")

    def replace(node, text):
        l0, c0, l1, c1 = node.lineno - 1, node.col_offset, node.end_lineno - 1, node.end_col_offset
        new = lines[:l0] + [lines[l0][:c0] + text + lines[l1][c1:]] + lines[l1 + 1:]
        return "\n".join(new)
    for node in ast.walk(tree):
        if isinstance(node, ast.Compare) and len(node.ops) == 1 and type(node.ops[0]) in FLIP:
            new = ast.Compare(left=node.left, ops=[FLIP[type(node.ops[0])]()], comparators=node.comparators)
            yield (f"L{node.lineno}: {ast.unparse(node)[:60]} -> {ast.unparse(new)[:60]}", replace(node, "(" + ast.unparse(new) + ")"))
        elif isinstance(node, ast.BoolOp) and len(node.values) == 2:
            new = ast.BoolOp(op=ast.Or() if isinstance(node.op, ast.And) else ast.And(), values=node.values)
            yield (f"L{node.lineno}: and<->or in {ast.unparse(node)[:60]}", replace(node, "(" + ast.unparse(new) + ")"))
        elif isinstance(node, ast.AugAssign) and isinstance(node.op, (ast.Add, ast.Sub)):
            new = ast.AugAssign(target=node.target, op=ast.Sub() if isinstance(node.op, ast.Add) else ast.Add(), value=node.value)
            yield (f"L{node.lineno}: {ast.unparse(node)[:60]} -> {ast.unparse(new)[:60]}", replace(node, ast.unparse(new)))
        elif isinstance(node, ast.Expr) and isinstance(node.value, ast.Call) and node.lineno == node.end_lineno:
            callee = ast.unparse(node.value.func)
            if callee.split(".")[-1] in ("debug", "info", "warning", "error", "exception", "critical", "mark", "label", "trace"):
                continue
            yield (f"L{node.lineno}: delete call {ast.unparse(node)[:70]}", replace(node, "pass"))
        elif isinstance(node, ast.If) and node.orelse == [] and not isinstance(node.test, ast.Compare):
            new = ast.UnaryOp(op=ast.Not(), operand=node.test)
            yield (f"L{node.lineno}: negate if {ast.unparse(node.test)[:60]}", replace(node.test, "(" + ast.unparse(new) + ")"))


def main():
    ap = argparse.ArgumentParser()
    ap.add_argument("--per-file", type=int, default=3)
    ap.add_argument("--budget", type=int, default=45)
    ap.add_argument("--seed", type=int, default=0)
    ap.add_argument("--only", default="")
    a = ap.parse_args()
    rng = random.Random(a.seed)
    out_path = os.path.join(ROOT, "seeded", "mutsweep.json")
    results = json.load(open(out_path)) if os.path.exists(out_path) else []
    done = {(r["file"], r["mutant"]) for r in results}
    scratch = "/tmp/mut/src"
    for rel, checks in TARGETS:
        if a.only and a.only not in rel:
            continue
        src = open(os.path.join("/repo/src", rel)).read()
        ms = list(mutants(src))
        rng.shuffle(ms)
        taken = 0
        for desc, new in ms:
            if taken >= a.per_file:
                break
            if (rel, desc) in done:
                continue
            try:
                compile(new, rel, "exec")
            except SyntaxError:
                continue
            taken += 1
            shutil.rmtree("/tmp/mut", ignore_errors=True)
            shutil.copytree("/repo/src", scratch, ignore=shutil.ignore_patterns("__pycache__"))
            open(os.path.join(scratch, rel), "w").write(new)
            verdicts = {}
            for c in checks:
                t0 = time.time()
                r = subprocess.run(f"cd {ROOT} && timeout 1200 ./check {c} --tier quick", shell=True, capture_output=True, text=True,
                                   env=dict(os.environ, VERIF_REPO_SRC=scratch, VERIF_BUDGET_S=str(a.budget), VERIF_SHRINK_S="5",
                                            VERIF_EVIDENCE_DIR="/tmp/mut/evidence"))
                cls = [l.strip().split()[0][6:] for l in r.stdout.splitlines() if l.strip().startswith("class=")]
                verdicts[c] = dict(exit=r.returncode, classes=cls[:3], wall_s=round(time.time() - t0))
                if r.returncode == 1:
                    break
            killed = any(v["exit"] == 1 for v in verdicts.values())
            herr = (not killed) and any(v["exit"] == 2 for v in verdicts.values())
            rec = dict(file=rel, mutant=desc, killed=killed, harness_error=herr, verdicts=verdicts)
            results.append(rec)
            json.dump(results, open(out_path, "w"), indent=1)
            print(("KILLED  " if killed else ("HARNESS " if herr else "SURVIVED")), rel, desc, {c: (v["exit"], v["classes"][:1]) for c, v in verdicts.items()}, flush=True)
    shutil.rmtree("/tmp/mut", ignore_errors=True)
    k = sum(r["killed"] for r in results)
    print(f"mutation sweep: {len(results)} mutants, {k} killed, {sum(r['harness_error'] for r in results)} harness errors, {len(results) - k - sum(r['harness_error'] for r in results)} survived")


if __name__ == "__main__":
    main()
