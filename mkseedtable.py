#!/venv/bin/python
"""Prints the markdown table of DESIGN.md section 18 from /verif/seeded/*/meta.json."""
import glob
import json
import os

rows = []
for d in sorted(glob.glob(os.path.join(os.path.dirname(os.path.abspath(__file__)), "seeded", "*"))):
    mp = os.path.join(d, "meta.json")
    if not os.path.exists(mp):
        continue
    m = json.load(open(mp))
    checks = m.get("checks") or {}
    det = []
    for c, v in checks.items():
        cls = ""
        for l in v.get("lines", []):
            if l.strip().startswith("class="):
                cls = l.strip().split()[0][6:]
                break
        det.append(f"{c}: {'caught' if v.get('detected') else 'MISSED'}{' (' + cls + ')' if cls else ''}")
    confirmed = "yes" if (m.get("tests_pass_with_change") and (m.get("demo_fails_with_change") in (True, None)) and (m.get("demo_passes_without_change") in (True, None))) else "NO"
    summ = (m.get("summary") or "").replace("|", "/").replace("\n", " ")
    if m.get("note") and not m.get("obsolete"):
        det.append("see note below")
    if m.get("obsolete"):
        confirmed = "obsolete"
        det.append("see note")
    rows.append(f"| {m['name']} | {m['property']} | {summ[:170]} | {confirmed} | {'; '.join(det)} |")
print("| seed | property | change | confirmed | quick check result |")
print("|------|----------|--------|-----------|--------------------|")
print("\n".join(rows))
print()
for d in sorted(glob.glob(os.path.join(os.path.dirname(os.path.abspath(__file__)), "seeded", "*", "meta.json"))):
    m = json.load(open(d))
    if m.get("note"):
        print(f"* **{m['name']}**: {m['note']}")
