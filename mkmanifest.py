#!/venv/bin/python
"""Regenerates MANIFEST.json from props.py (run after changing the property table)."""
import json
import os
import sys

ROOT = os.path.dirname(os.path.abspath(__file__))
sys.path.insert(0, ROOT)
import props  # noqa

NA = {
    "C11": "pure Graph -> Graph rewrites (copy/rename/dedup/fuse/expand/split): a function of its input only; no schedule, clock, fault or second party for a simulator to control (DESIGN.md section 9)",
    "C12": "pure serialise/deserialise round trip of a graph; the single file write carries no crash or concurrency claim; input generation only",
    "C13": "pure evaluation of a deterministic fluent graph against NumPy; quantifier is programs/inputs/batch sizes, nothing to schedule or fault",
    "C14": "pure naming function of fluent programs; 'same program twice gives the same names' is input determinism, not scheduling",
    "C15": "pure numerics of array backends; no concurrency, time or I/O",
    "C16": "pure function of the job DAG (its internal 4-thread pool maps a pure function over disjoint components through order-preserving map); every simulated run calls the real precompute but nothing is claimed",
    "C17": "pure codecs; the simulated transports carry the real encodings end to end but covering the value domain (sizes >= 2^32, every message class) is input generation, which schedule and fault search does not help",
    "C19": "pure validation/construction by the job builder; no schedule, fault or history dimension",
}
PENDING = {}

checks = []
for pid in sorted(props.PROPS):
    c = props.PROPS[pid]
    if c.get("disabled"):
        continue
    checks.append(dict(
        property_id=pid,
        quick_cmd=f"./check {pid} --tier quick",
        thorough_cmd=f"./check {pid} --tier thorough",
        evidence_file=f"/verif/evidence/{pid}.json",
        replay_cmd_template=f"./check {pid} --replay {{path}}",
        engine="dsim",
        level_claimed=dict(category=c["level"], text=c["level_text"], design_ref=c.get("design_ref", "DESIGN.md section 8")),
        level_note=c["level_note"],
        technique="deterministic simulation with fault injection: seeded search over schedules" + (" and fault sequences, single-fault enumeration along recorded schedules" if c["level"] == "fault_enumeration" else " and workloads") + "; oracles = reference models + invariants over the recorded history",
    ))
na = [dict(property_id=k, reason=v) for k, v in sorted(NA.items())]
all_ids = [json.loads(l)["id"] for l in open(os.path.join(ROOT, "properties.jsonl"))]
for pid in all_ids:
    if pid not in props.PROPS and pid not in NA:
        na.append(dict(property_id=pid, reason=PENDING.get(pid, "check for this property is still under construction in this tree; it is intended to be claimed (DESIGN.md section 8)")))
m = dict(
    version=1,
    setup_cmd="./setup.sh",
    hooks=dict(guard="EKW_VERIF", enable="no source hook is needed: every seam is replaced from outside (sys.modules / module attributes) by /verif/sim/fakes.py before cascade is imported from /repo/src",
               baseline_off_cmd="cd /repo && /venv/bin/python -m pytest -ra -q -p no:cacheprovider --timeout=900 --continue-on-collection-errors",
               source_commits=[], add_only=True),
    engines=[dict(name="dsim", path="/verif/sim", serves_properties=sorted(p for p in props.PROPS if not props.PROPS[p].get("disabled")),
                  kind_free_text="hand-written deterministic simulator: baton-passing real threads under a seeded scheduler, virtual clock, simulated zmq/UDP/shared memory/processes/thread pools/files, fault injection, replay files and plan/trace shrinking")],
    checks=checks,
    not_applicable=na,
    notes="Checks import ecmwf/earthkit-workflows from /repo/src's current working tree in fresh interpreters (nothing to build). Exit 0 = held on everything explored (KNOWN-FINDING lines for recorded defects), 1 = VIOLATION with replay file, 2 = harness error. Fix commits in /repo: see known_findings.json.",
)
json.dump(m, open(os.path.join(ROOT, "MANIFEST.json"), "w"), indent=1)
try:
    import jsonschema
    jsonschema.validate(m, json.load(open("/root/.vp/MANIFEST.schema.json")))
    print("MANIFEST.json valid;", len(checks), "checks,", len(na), "not applicable")
except ImportError:
    print("written (jsonschema unavailable)")
