#!/bin/sh
# Offline setup: nothing to build.  Verifies the interpreter, the imports and runs the seam audit.
cd "$(dirname "$0")" || exit 2
/venv/bin/python - <<'PY' || exit 2
import sys
sys.path.insert(0, "/verif")
import vdriver
vdriver.bootstrap()
import props
rc = props.audit()
import cascade, zmq
assert getattr(zmq, "__verif_fake__", False)
print("setup ok: cascade from", cascade.__file__)
sys.exit(rc)
PY
