#!/bin/sh
# usage: ./soak.sh "<seeds>" [tier] [props...]  - runs the registered checks under several VERIF_SEED values; any non-zero exit is printed
cd "$(dirname "$0")" || exit 2
seeds="$1"; tier="${2:-quick}"; shift 2 2>/dev/null
props="${*:-C01 C02 C03 C04 C05 C06 C07 C08 C09 C10 C18}"
bad=0
for s in $seeds; do for p in $props; do
  out=$(VERIF_SEED=$s VERIF_EVIDENCE_DIR=/tmp/soak-evidence ./check $p --tier $tier 2>&1); rc=$?
  echo "seed=$s $p rc=$rc $(echo "$out" | tail -1)"
  if [ $rc -ne 0 ]; then bad=$((bad+1)); echo "$out" | grep -v "^KNOWN" | tail -6; fi
done; done
echo "soak done: $bad non-zero exits"
