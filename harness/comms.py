"""`comms` harness (C06): the acknowledged-messaging layer under loss, duplication, delay, partitions and
malformed frame sequences.  The controller endpoint runs the real `Bridge` (registration, `recv_events`,
`shutdown`); executor endpoints run the real `Executor.register` + `Executor.recv_loop` with inert stub
children (stub shm server / data server / workers), so the retry and acknowledge loops are the repository's."""
import collections
import copy
import types

from sim import fakes, wire
from sim.kernel import Kernel, SimKilled, SimProc

NAME = "comms"
CTRL = "tcp://localhost:12000"


def gen_plan(rng, opts=None):
    o = dict(mode="traffic", lossy=True, partition=False, max_ops=30)
    o.update(opts or {})
    if o["mode"] == "malformed":
        seq = []
        for _ in range(rng.randint(2, 10)):
            seq.append(rng.choice(["ok", "ok", "syn_only", "double_syn", "header_no_value", "extra_frame", "empty", "header_extra", "syn_header_no_value",
                                   "syn_payload_extra", "plain_extra"]))
        return dict(mode="malformed", seq=seq, lat_hi=rng.choice([50_000, 5_000_000]))
    n = rng.choice([1, 2, 2, 3, 3, 4, 5])
    wph = rng.randint(1, 2)
    stagger = [rng.choice([0, 0, rng.randint(0, 2000)]) for _ in range(n)]     # ms before each executor starts: heartbeat phases
    ops = []
    tag = 0
    for _ in range(rng.randint(3, o["max_ops"])):
        r = rng.random()
        h = rng.randrange(n)
        if r < 0.6:
            ops.append(["ts", h, rng.randrange(wph), f"t{tag}", rng.choice([0, 0, 1, 30, 900])])
            tag += 1
        elif r < 0.75:
            ops.append(["tx", h, f"t{rng.randrange(max(1, tag))}"])
        elif r < 0.9:
            ops.append(["purge", h, f"t{rng.randrange(max(1, tag))}"])
        else:
            ops.append(["wait", rng.choice([1, 20, 50])])
    stall = None
    if o.get("burst"):
        # far more messages than any one receive round is likely to see, queued at one listener while its process is descheduled
        ops = []
        for i in range(rng.randint(66, 140)):
            ops.append(rng.choice([["purge", 0, f"t{i}"], ["purge", 0, f"t{i}"], ["tx", 0, f"t{i}"]]) if n > 1 else ["purge", 0, f"t{i}"])
        stall = dict(host=0, at_op=rng.randint(0, 4), ms=rng.choice([300, 700, 1500]))
    if o.get("bad_frames"):
        # a malformed frame sequence arrives at an executor right behind well-formed commands, while the executor is descheduled, so
        # that one receive round drains them together: the commands were acknowledged - they must be handled, or the executor must fail
        h = rng.randrange(n)
        at = rng.randint(0, len(ops))
        run_ = [["purge", h, f"b{i}"] for i in range(rng.randint(1, 3))]
        ops[at:at] = run_ + [["bad", h, rng.choice(["syn_only", "double_syn", "extra_frame", "empty", "plain_extra"])]]
        stall = dict(host=h, at_op=at, ms=rng.choice([100, 300]))
    net = dict(lat_lo=50_000, lat_hi=rng.choice([50_000, 2_000_000, 300_000_000]), drop=0, dup=0, max_consec=None)
    if o["lossy"]:
        net.update(drop=rng.choice([0, 5, 15, 30, 45]), dup=rng.choice([0, 5, 15, 30]), max_consec=rng.choice([2, 4, None]))
    knobs = dict(max_retries=rng.choice([3, 5, 20]), batch=rng.choice([1, 3, 8]))
    part = None
    if o["partition"]:
        part = dict(host=rng.randrange(n), at_op=rng.randrange(len(ops)), dir=rng.choice(["both", "to_ctrl", "to_exec"]),
                    scope=rng.choice(["both", "both", "data", "main"]))      # the whole host, or only its data server's / its executor's port
        knobs["max_retries"] = rng.choice([3, 5])
        if rng.random() < 0.4:
            # a partition that heals before the full retry budget (20 x 800 ms) is used up: nobody may give up, and the copies that
            # pile up on the far side (or whose acks were lost for many seconds) are still delivered exactly once
            part.update(heal_s=rng.choice([5, 9, 12, 14]), acks_too=True)
            knobs["max_retries"] = 20
    return dict(mode="traffic", n=n, wph=wph, ops=ops, net=net, knobs=knobs, partition=part, stagger=stagger, stall=stall,
                tx_answered=rng.random() < 0.6)       # transfers are confirmed by an event the controller waits for


class Mon:
    def __init__(self, K):
        self.K = K
        self.sent = {}        # (sender address, idx) -> dict(dest, msg, t, teardown)
        self.delivered = collections.Counter()   # (sender address, idx) -> times returned to an application
        self.accepted = {}    # id(listener) -> id(message) -> (key, message): taken off the wire by _recv_one, not yet returned by recv_messages
        self.delivered_at = {}
        self.suppressed = 0
        self.viol = []
        self.gaveup = []      # (sender address, t, text)
        self.teardown = {}    # sender address -> virtual time its endpoint began teardown
        self.raised = []      # listener-level ValueErrors (malformed)
        self.tx_times = {}    # (sender address, idx) -> times a data frame of that message was put on the wire
        self.acked_at = {}    # (sender address, idx) -> time its sender processed the acknowledgement
        self._undo = []

    def v(self, cls, detail, **sig):
        self.viol.append(("C06", cls, detail, sig))

    def patch(self, obj, name, new):
        old = getattr(obj, name)
        setattr(obj, name, new)
        self._undo.append((obj, name, old))
        return old

    def undo(self):
        for obj, name, old in reversed(self._undo):
            setattr(obj, name, old)

    def install(self):
        import cascade.executor.comms as comms
        from cascade.executor.msg import Syn
        from cascade.executor.serde import des_message
        K, mon = self.K, self
        orig_send = comms.ReliableSender.send

        def rsend(self_, host, m):
            key = (fakes.Net.norm(self_.address), self_.idx)
            dest = fakes.Net.norm(self_.hosts[host][1]) if host in self_.hosts else None
            mon.sent[key] = dict(dest=dest, msg=m, t=K.now, teardown=fakes.Net.norm(self_.address) in mon.teardown)
            K.probe("acked_send")
            r = orig_send(self_, host, m)
            if key[1] not in self_.inflight:
                # the call returned normally but the message was given neither an index nor an in-flight record: it is on no
                # wire and nobody will ever resend or report it (e.g. "coalesced" with an equal message still awaiting its ack)
                mon.v("accepted_by_send_but_never_queued", (key, type(m).__name__, host))
                mon.sent.pop(key, None)
            return r
        self.patch(comms.ReliableSender, "send", rsend)
        orig_retry = comms.ReliableSender.maybe_retry

        def rretry(self_):
            before = {i: r.remaining for i, r in self_.inflight.items()}
            try:
                r = orig_retry(self_)
            except ValueError as e:
                mon.gaveup.append((fakes.Net.norm(self_.address), K.now, str(e)[:80]))
                K.probe("retry_give_up")
                raise
            if any(self_.inflight[i].remaining != before[i] for i in before if i in self_.inflight):
                K.probe("retransmission")
            return r
        self.patch(comms.ReliableSender, "maybe_retry", rretry)
        orig_ack = comms.ReliableSender.ack

        def rack(self_, idx):
            mon.acked_at.setdefault((fakes.Net.norm(self_.address), idx), K.now)
            return orig_ack(self_, idx)
        self.patch(comms.ReliableSender, "ack", rack)
        orig_net_send = K.net.send

        def net_send(link, addr, frames):
            k = wire.fault_key(frames, addr)
            if k is not None and len(frames) > 1:       # a Syn-prefixed data frame (not an ack)
                mon.tx_times.setdefault(k, []).append(K.now)
            return orig_net_send(link, addr, frames)
        K.net.send = net_send
        orig_one = comms.Listener._recv_one

        def one(self_, timeout_ms):
            n0 = len(K.net.recvlog)
            try:
                m = orig_one(self_, timeout_ms)
            except ValueError as e:
                mon.raised.append((fakes.Net.norm(self_.address), str(e)[:60]))
                raise
            mine = [e for e in K.net.recvlog[n0:] if e[1] == fakes.Net.norm(self_.address)]
            if mine:
                frames = mine[0][2]
                try:
                    m0 = des_message(frames[0])
                except Exception:
                    m0 = None
                if isinstance(m0, Syn):
                    key = (fakes.Net.norm(m0.addr), m0.idx)
                    if m is None:
                        mon.suppressed += 1
                        K.probe("duplicate_syn_suppressed")
                    else:
                        # accepted by the listener; it counts as delivered when recv_messages hands it to its caller
                        mon.accepted.setdefault(id(self_), {})[id(m)] = (key, m)
            return m
        self.patch(comms.Listener, "_recv_one", one)
        orig_many = comms.Listener.recv_messages

        def many(self_, *a, **kw):
            out = orig_many(self_, *a, **kw)
            mine = mon.accepted.setdefault(id(self_), {})
            for m in out:
                ent = mine.pop(id(m), None)
                if ent is None or ent[1] is not m:
                    continue
                key = ent[0]
                mon.delivered[key] += 1
                mon.delivered_at[key] = fakes.Net.norm(self_.address)
                if mon.delivered[key] > 1:
                    mon.v("delivered_twice", (key, type(m).__name__))
                    if type(m).__name__ == "TaskSequence":
                        # the executor forwards whatever its listener returns to the worker: these tasks are sent for execution again
                        mon.viol.append(("C02", "task_sequence_handed_to_executor_twice", (key, list(m.tasks)[:3]), {}))
                s = mon.sent.get(key)
                if s is None:
                    mon.v("delivered_never_sent", (key, repr(m)[:100]))
                else:
                    if s["msg"] != m:
                        mon.v("delivered_differs_from_sent", (key, repr(s["msg"])[:100], repr(m)[:100]))
                    if s["dest"] is not None and s["dest"] != fakes.Net.norm(self_.address):
                        mon.v("delivered_to_wrong_endpoint", (key, s["dest"], self_.address))
            if mine:
                # read off the socket, acknowledged to its sender (who will never resend it), and then not returned
                for key, m in list(mine.values()):
                    mon.v("acknowledged_message_dropped_by_receiver", (key, type(m).__name__, fakes.Net.norm(self_.address)))
                mine.clear()
            return out
        self.patch(comms.Listener, "recv_messages", many)


def run(plan, ch, want_log=False):
    if plan["mode"] == "malformed":
        return _run_malformed(plan, ch, want_log)
    return _run_traffic(plan, ch, want_log)


# ------------------------------------------------------------------------------------------ traffic
def _run_traffic(plan, ch, want_log):
    import cascade.executor.comms as comms
    import cascade.executor.executor as ex
    from cascade.executor.bridge import Bridge
    from cascade.executor.comms import Listener, callback
    from cascade.executor.msg import (DatasetPublished, DatasetPurge, DatasetTransmitCommand, TaskSequence, WorkerReady, WorkerShutdown)
    from cascade.executor.runner.entrypoint import worker_address
    from cascade.executor.serde import des_message
    from cascade.low.core import DatasetId, JobInstance, WorkerId
    net, knobs = plan["net"], plan["knobs"]
    K = Kernel(ch, max_steps=400_000, max_time_ns=3600 * 10**9)
    if want_log:
        K.tracelog = []
    pstate = dict(on=False, since=None)
    part = plan.get("partition")

    def partition(kernel, addr, frames):
        if not pstate["on"]:
            return False
        base = 12001 + 10 * part["host"]
        ports = {"both": (base, base + 1), "data": (base + 1,), "main": (base,)}[part.get("scope", "both")]
        to_exec = any(addr.endswith(f":{p}") for p in ports)
        to_ctrl = addr.endswith(":12000")
        if to_exec:
            return part["dir"] in ("both", "to_exec")
        if to_ctrl and part["dir"] in ("both", "to_ctrl"):
            # only the partitioned host's traffic towards the controller: identify by the Syn/ack origin
            from cascade.executor.msg import Syn
            try:
                m0 = des_message(frames[0])
            except Exception:
                return False
            if isinstance(m0, Syn):
                return any(m0.addr.endswith(f":{p}") for p in ports)
            return True if part.get("acks_too") else False
        return False
    ncfg = dict(lat=(net["lat_lo"], net["lat_hi"]), faultable=wire.faultable, drop_pct=net["drop"], dup_pct=net["dup"],
                max_drops_per_message=net.get("max_consec"), fault_key=wire.fault_key, plan=net.get("plan"), partition=partition if part else None, keep_wire=False)
    fakes.new_world(K, ncfg)
    mon = Mon(K)
    stubflags = {}
    applog = collections.defaultdict(list)   # endpoint -> messages seen by stub children
    result = {}

    def stub_shm(*a, **kw):
        me = K.cur().proc.name
        K.block(lambda: stubflags.get(me), None, "stub.shm")

    def stub_data(maddress, daddress, host, shm_port, logging_config):
        l = Listener(daddress)
        while True:
            for m in l.recv_messages(500):
                applog["data." + host].append(m)
                if plan.get("tx_answered") and isinstance(m, DatasetTransmitCommand):
                    # what a data server does when a payload has been stored: tell its executor, which tells the controller
                    callback(maddress, DatasetPublished(ds=m.ds, origin=host, transmit_idx=m.idx))

    def stub_worker(runnerContext):
        import zmq
        wid = runnerContext.workerId
        sock = zmq.Context().socket(zmq.PULL)
        sock.bind(worker_address(wid))
        callback(runnerContext.callback, WorkerReady(wid))
        while True:
            m = des_message(sock.recv())
            if isinstance(m, WorkerShutdown):
                break
            applog[repr(wid)].append(m)
            if isinstance(m, TaskSequence):
                d = delays.get(m.tasks[0], 0)
                if d:
                    K.sleep(d * 1_000_000)
                callback(runnerContext.callback, DatasetPublished(origin=wid, ds=DatasetId(m.tasks[0], "0"), transmit_idx=None))

    delays = {op[3]: op[4] for op in plan["ops"] if op[0] == "ts"}
    shm_stub = types.SimpleNamespace(ensure=lambda: None, shutdown=lambda: stubflags.__setitem__(K.cur().proc.name + ".shm", True))
    mon.patch(ex, "shm_server", stub_shm)
    mon.patch(ex, "start_data_server", stub_data)
    mon.patch(ex, "entrypoint", stub_worker)
    mon.patch(ex, "shm_client", shm_stub)
    mon.patch(comms, "max_retries_per_message", knobs["max_retries"])
    orig_term = ex.Executor.terminate

    def term(self_):
        mon.teardown.setdefault(fakes.Net.norm(self_.mlistener.address), K.now)
        return orig_term(self_)
    mon.patch(ex.Executor, "terminate", term)
    import cascade.executor.bridge as bridge_mod
    orig_bs = bridge_mod.Bridge.shutdown

    def bs(self_):
        mon.teardown.setdefault(fakes.Net.norm(CTRL), K.now)     # also when recv_events shuts down by itself before raising
        return orig_bs(self_)
    mon.patch(bridge_mod.Bridge, "shutdown", bs)
    job = JobInstance(tasks={}, edges=[])
    n, wph = plan["n"], plan["wph"]

    def launch(i):
        d = (plan.get("stagger") or [0] * n)[i] if i < len(plan.get("stagger") or []) else 0
        if d:
            K.sleep(d * 1_000_000)
        e = ex.Executor(job, CTRL, wph, f"h{i}", 12001 + 10 * i)
        e.register()
        e.recv_loop()

    def controller():
        try:
            b = Bridge(CTRL, n)
        except SimKilled:
            raise
        except BaseException as e:  # noqa
            result["error"] = "registration: " + repr(e)[:200]
            result["t_end"] = K.now
            return
        result["registered"] = K.now
        expected = 0
        got = 0
        try:
            pending_batch = 0
            for oi, op in enumerate(plan["ops"]):
                if part and oi == part["at_op"]:
                    pstate["on"], pstate["since"] = True, K.now
                    K.fire("partition")
                    if part.get("heal_s"):
                        def heal():
                            pstate["on"] = False
                            K.fire("partition_heal")
                        K.at(K.now + part["heal_s"] * 10**9, heal)
                if plan.get("stall") and oi == plan["stall"]["at_op"]:
                    victim = next((p for p in K.procs if p.name == f"h{plan['stall']['host']}"), None)
                    if victim is not None:
                        K.stall(victim, plan["stall"]["ms"] * 1_000_000)
                if op[0] == "ts":
                    b.task_sequence(TaskSequence(worker=WorkerId(f"h{op[1]}", f"w{op[2]}"), tasks=[op[3]], publish=set()))
                    expected += 1
                elif op[0] == "tx":
                    b.transmit(DatasetId(op[2], "0"), f"h{op[1]}", f"h{(op[1] + 1) % n}")
                    if plan.get("tx_answered"):
                        expected += 1
                elif op[0] == "purge":
                    b.purge(f"h{op[1]}", DatasetId(op[2], "0"))
                elif op[0] == "bad":
                    import zmq
                    from cascade.executor.msg import Syn
                    from cascade.executor.serde import ser_message
                    raw = zmq.Context().socket(zmq.PUSH)
                    raw.connect(f"tcp://localhost:{12001 + 10 * op[1]}")
                    syn = ser_message(Syn(idx=900_000 + oi, addr=CTRL))
                    msg = ser_message(DatasetPurge(ds=DatasetId(f"bad{oi}", "0")))
                    raw.send_multipart({"syn_only": [syn], "double_syn": [syn, syn, msg], "extra_frame": [syn, msg, b"extra"], "empty": [],
                                        "plain_extra": [msg, b"extra"]}[op[2]])
                    K.fire("malformed:" + op[2])
                    result["bad_sent"] = result.get("bad_sent", 0) + 1
                elif op[0] == "wait":
                    # the real controller is (nearly) always inside recv_events, which is also where acks are sent and retries
                    # happen; a scripted controller that sleeps for long starves its peers' retry budgets.  So: wait for an event
                    # if one is outstanding, else pause only briefly
                    if got < expected:
                        got += len(b.recv_events())
                    else:
                        K.sleep(min(op[1], 50) * 1_000_000)
                pending_batch += 1
                if pending_batch >= knobs["batch"] and got < expected:
                    got += len(b.recv_events())
                    pending_batch = 0
            while got < expected:
                got += len(b.recv_events())
            # let outstanding acknowledged commands drain (retries) before tearing down
            t_dr = K.now + 40 * 10**9
            while b.sender.inflight and K.now < t_dr:
                for m in b.mlistener.recv_messages(200):
                    from cascade.executor.msg import Ack
                    if isinstance(m, Ack):
                        b.sender.ack(m.idx)
                b.sender.maybe_retry()
            result["ok"] = True
        except SimKilled:
            raise
        except Exception as e:
            result["error"] = repr(e)[:300]
            result["raised_in"] = "recv_events"
        mon.teardown.setdefault(fakes.Net.norm(CTRL), K.now)
        result["t_teardown"] = K.now
        if "error" not in result:
            try:
                b.shutdown()
            except SimKilled:
                raise
            except Exception as e:
                result["shutdown_error"] = repr(e)[:200]
        result["t_end"] = K.now

    for i in range(n):
        SimProc(K, f"h{i}", toplevel=True).start(lambda i=i: launch(i))
    pc = SimProc(K, "ctrl", toplevel=True).start(controller)

    def stop_when():
        if "t_end" in result:
            return all(p.exitcode is not None for p in K.procs) or K.now > result["t_end"] + 400 * 10**9
        if pstate["since"] is not None and K.now > pstate["since"] + 280 * 10**9:
            return True
        return K.now - K.t0 > 1200 * 10**9
    K.stop_when = stop_when
    mon.install()
    try:
        end = K.run(wall_timeout=180)
    finally:
        mon.undo()
    return _judge_traffic(plan, K, mon, result, pstate, end, want_log)


def _judge_traffic(plan, K, mon, result, pstate, end, want_log):
    viol = list(mon.viol)
    knobs, net = plan["knobs"], plan["net"]
    lossy = bool(net["drop"] or net["dup"] or net.get("plan"))
    part = plan.get("partition")
    verdict = "ok" if result.get("ok") else ("raised" if "error" in result else "hang")
    t_td = result.get("t_teardown")
    gave = {a for a, _, _ in mon.gaveup}
    if verdict == "raised":
        gave.add(fakes.Net.norm(CTRL))     # the controller's run ended with an error: nothing of its own was dropped silently
    budget = (knobs["max_retries"] + 1) * 800 * 10**6 + max(net["lat_hi"], 0) * 4 + 2 * 10**9
    def excluded(key, s):
        td = mon.teardown.get(key[0])
        if s["teardown"] or (td is not None and s["t"] >= td):
            return "excluded_teardown_message"
        if td is not None and td - s["t"] < budget:
            return "excluded_inflight_at_teardown"      # still inside its retry window when its own endpoint was told to shut down
        if K.now - s["t"] < budget:
            return "excluded_inflight_at_end_of_simulation"
        return None
    undelivered = []
    for key, s in mon.sent.items():
        if mon.delivered.get(key, 0) == 0:
            why = excluded(key, s)
            if why:
                K.probe(why)
                continue
            undelivered.append((key, type(s["msg"]).__name__, s["dest"]))
    silent = [u for u in undelivered if u[0][0] not in gave]
    cap = net.get("max_consec")
    fair = (not part) and net["lat_hi"] <= 300_000_000 and (not net["drop"] or (cap is not None and cap <= knobs["max_retries"] - 3))
    if verdict == "hang":
        if silent:
            viol.append(("C06", "lost_message_never_retried_nor_reported", dict(silent=silent[:3], end=end, gaveup=mon.gaveup[:2]),
                         dict(lossy=lossy, partition=bool(part))))
        elif part or mon.gaveup:
            # an endpoint gave up and went away (C06 satisfied); that the controller then waits for a vanished host is not C06's subject
            K.probe("controller_waits_for_vanished_host")
        else:
            viol.append(("C06", "hang", dict(end=end, result={k: repr(v)[:80] for k, v in result.items()}), dict(lossy=lossy, partition=False)))
    else:
        if silent:
            viol.append(("C06", "undelivered_without_error", dict(silent=silent[:3], verdict=verdict), dict(lossy=lossy, partition=bool(part))))
        early = [g for g in mon.gaveup if t_td is None or g[1] < t_td]
        if fair and early:
            viol.append(("C06", "gave_up_under_fair_loss", early[:2], dict(lossy=lossy)))
        elif mon.gaveup and not early:
            K.probe("give_up_after_peer_teardown")
        if verdict == "raised" and not lossy and not part and not result.get("bad_sent"):
            viol.append(("C06", "raised_without_faults", result.get("error"), {}))
    if part and pstate["since"] is not None:
        # bounded give-up: a sender with traffic into the partition raises within retries x grace + slack
        cut = [k for k, s in mon.sent.items() if s["t"] >= pstate["since"] and mon.delivered.get(k, 0) == 0 and not excluded(k, s)]
        if cut:
            bound = (knobs["max_retries"] + 2) * 800 * 10**6 + 30 * 10**9
            t_first = min(mon.sent[k]["t"] for k in cut)
            t_give = min((t for _, t, _ in mon.gaveup), default=None)
            if t_give is None and verdict != "raised":
                viol.append(("C06", "no_give_up_under_partition", dict(cut=[(k, type(mon.sent[k]['msg']).__name__) for k in cut][:3], verdict=verdict),
                             dict(partition=True)))
            elif t_give is not None and t_give - t_first > bound:
                viol.append(("C06", "give_up_not_bounded", dict(after_s=(t_give - t_first) / 1e9), dict(partition=True)))
            else:
                K.probe("bounded_give_up_observed")
    # timely retransmission: while a message is unacknowledged and its sender's loop is running, the next transmission follows
    # within a few resend periods - however much other traffic the endpoint is busy receiving
    bound = 5 * 800 * 10**6 + 2 * net["lat_hi"]
    for key, times in mon.tx_times.items():
        s = mon.sent.get(key)
        if s is None or s["teardown"]:
            continue
        td = mon.teardown.get(key[0])
        gave_t = min((t for a, t, _ in mon.gaveup if a == key[0]), default=None)
        end_t = min(x for x in (mon.acked_at.get(key), td, gave_t, K.now) if x is not None)
        pts = [t for t in times if t <= end_t] + [end_t]
        gap = max((b - a for a, b in zip(pts, pts[1:])), default=0)
        if gap > bound:
            viol.append(("C06", "retransmission_overdue", dict(key=key, msg=type(s["msg"]).__name__, gap_s=gap / 1e9, transmissions=len(times)),
                         dict(lossy=lossy, partition=bool(part))))
            break
    for name, err, tb in K.crashes:
        K.probe("process_crash")
    stats = dict(sent_msgs=len(mon.sent), delivered=sum(mon.delivered.values()), suppressed=mon.suppressed, frames=K.net.stats["sent"],
                 dropped=K.net.stats["dropped"], dup=K.net.stats["dup"], gaveup=len(mon.gaveup), ops=len(plan["ops"]))
    nontrivial = dict(C06=(K.net.stats["dropped"] + K.net.stats["dup"] > 0) or bool(part))
    res = dict(harness=NAME, viol=[dict(prop=p, cls=c, detail=repr(d)[:500], sig=s) for p, c, d, s in viol], probes=dict(K.probes), fired=dict(K.fired),
               digest=K.digest(), steps=K.steps, simtime=(K.now - K.t0) / 1e9, stats=stats, nontrivial=nontrivial, end=f"{verdict}/{end}", verdict=verdict,
               frame_points=K.net.nfaultable)
    if want_log:
        res["log"] = K.tracelog
        res["result"] = {k: repr(v)[:300] for k, v in result.items()}
        res["crashes"] = [(a, b, c[-600:]) for a, b, c in K.crashes]
        res["gaveup"] = mon.gaveup
    return res


def expand(plan, res, rng, cap, kinds):
    """Single-loss / single-duplication enumeration: each acknowledged frame and each ack of the base run is
    dropped once, then duplicated once, on the identical prefix."""
    if plan["mode"] != "traffic":
        return [], 0
    n = res.get("frame_points", 0)
    pts = [("drop", i) for i in range(n)] + [("dup", i) for i in range(n)]
    total = len(pts)
    if cap is not None and len(pts) > cap:
        pts = [pts[i] for i in sorted(rng.sample(range(len(pts)), cap))]
    out = []
    for kind, i in pts:
        c = copy.deepcopy(plan)
        c["net"]["plan"] = {kind: [i]}
        out.append(c)
    return out, total


# ------------------------------------------------------------------------------------------ malformed
def _run_malformed(plan, ch, want_log):
    import pickle
    import zmq
    from cascade.executor.comms import Listener, ReliableSender
    from cascade.executor.msg import Ack, DatasetPurge, DatasetTransmitPayloadHeader, Syn
    from cascade.executor.serde import ser_message
    from cascade.low.core import DatasetId
    K = Kernel(ch, max_steps=100_000, max_time_ns=600 * 10**9)
    if want_log:
        K.tracelog = []
    fakes.new_world(K, dict(lat=(50_000, plan["lat_hi"])))
    mon = Mon(K)
    A, B = "tcp://a:1", "tcp://b:1"
    delivered, errors = [], []
    done = {}
    good = {}

    def receiver():
        l = Listener(A)
        idle = 0
        while idle < 3:
            try:
                ms = l.recv_messages(2000)
            except ValueError as e:
                errors.append(str(e)[:60])
                idle = 0
                continue
            idle = idle + 1 if not ms else 0
            delivered.extend(ms)
        done["rx"] = True

    def sender():
        lb = Listener(B)
        s = ReliableSender(B, 800)
        s.add_host("a", A)
        hdr = DatasetTransmitPayloadHeader(confirm_address=B, confirm_idx=0, ds=DatasetId("x", "0"), deser_fun="f")
        for i, kind in enumerate(plan["seq"]):
            raw = zmq.Context().socket(zmq.PUSH)
            raw.connect(A)
            syn = ser_message(Syn(idx=1000 + i, addr=B))
            msg = ser_message(DatasetPurge(ds=DatasetId(f"bad{i}", "0")))
            if kind == "ok":
                m = DatasetPurge(ds=DatasetId(f"good{i}", "0"))
                good[i] = m
                s.send("a", m)
            elif kind == "syn_only":
                raw.send_multipart([syn])
            elif kind == "double_syn":
                raw.send_multipart([syn, syn, msg])
            elif kind == "header_no_value":
                raw.send_multipart([pickle.dumps(hdr)])
            elif kind == "header_extra":
                raw.send_multipart([pickle.dumps(hdr), b"v", b"extra"])
            elif kind == "extra_frame":
                raw.send_multipart([syn, msg, b"extra"])
            elif kind == "empty":
                raw.send_multipart([])
            elif kind == "syn_header_no_value":
                raw.send_multipart([syn, pickle.dumps(hdr)])
            elif kind == "syn_payload_extra":
                raw.send_multipart([syn, pickle.dumps(hdr), b"v", b"extra"])
            elif kind == "plain_extra":
                raw.send_multipart([msg, b"extra"])
            K.fire("malformed:" + kind) if kind != "ok" else None
            for m in lb.recv_messages(50):
                if isinstance(m, Ack):
                    s.ack(m.idx)
        for _ in range(8):
            for m in lb.recv_messages(500):
                if isinstance(m, Ack):
                    s.ack(m.idx)
            try:
                s.maybe_retry()
            except ValueError:
                break
    SimProc(K, "rx", toplevel=True).start(receiver)
    SimProc(K, "tx", toplevel=True).start(sender)
    mon.install()
    try:
        end = K.run(wall_timeout=120)
    finally:
        mon.undo()
    viol = list(mon.viol)
    nbad = sum(1 for k in plan["seq"] if k != "ok")
    if len(errors) != nbad:
        viol.append(("C06", "malformed_sequence_not_rejected", dict(malformed=nbad, errors=errors[:6], seq=plan["seq"]), {}))
    bad_delivered = [repr(m)[:80] for m in delivered if not (isinstance(m, DatasetPurge) and m.ds.task.startswith("good"))]
    if bad_delivered:
        viol.append(("C06", "malformed_sequence_delivered", bad_delivered[:3], {}))
    cnt = collections.Counter(repr(m) for m in delivered)
    if any(v > 1 for v in cnt.values()):
        viol.append(("C06", "delivered_twice", [k for k, v in cnt.items() if v > 1][:3], {}))
    for n_, e, tb in K.crashes:
        viol.append(("HARNESS", "crash", (n_, e), {}))
    res = dict(harness=NAME, viol=[dict(prop=p, cls=c, detail=repr(d)[:500], sig=s) for p, c, d, s in viol], probes=dict(K.probes), fired=dict(K.fired),
               digest=K.digest(), steps=K.steps, simtime=(K.now - K.t0) / 1e9, stats=dict(malformed=nbad, delivered=len(delivered)),
               nontrivial=dict(C06=nbad > 0), end=f"malformed/{end}", verdict="ok")
    if want_log:
        res["log"] = K.tracelog
    return res


def shrink_candidates(plan):
    if plan["mode"] == "malformed":
        for i in range(len(plan["seq"])):
            c = copy.deepcopy(plan)
            del c["seq"][i]
            if c["seq"]:
                yield c
        return
    for i in range(len(plan["ops"]) - 1, -1, -1):
        c = copy.deepcopy(plan)
        del c["ops"][i]
        if c.get("partition") and c["partition"]["at_op"] >= len(c["ops"]):
            c["partition"]["at_op"] = max(0, len(c["ops"]) - 1)
        if c["ops"]:
            yield c
    if plan["n"] > 1:
        c = copy.deepcopy(plan)
        c["n"] -= 1
        c["stagger"] = (c.get("stagger") or [])[:c["n"]]
        c["ops"] = [op for op in c["ops"] if op[0] == "wait" or op[1] < c["n"]]
        if c.get("partition") and c["partition"]["host"] >= c["n"]:
            c["partition"]["host"] = 0
        if c["ops"]:
            yield c
    if plan["wph"] > 1:
        c = copy.deepcopy(plan)
        c["wph"] = 1
        for op in c["ops"]:
            if op[0] == "ts":
                op[2] = 0
        yield c
    for key, val in (("drop", 0), ("dup", 0), ("lat_hi", 50_000)):
        if plan["net"].get(key) != val:
            c = copy.deepcopy(plan)
            c["net"][key] = val
            yield c
    for i, op in enumerate(plan["ops"]):
        if op[0] == "ts" and op[4]:
            c = copy.deepcopy(plan)
            c["ops"][i][4] = 0
            yield c


def sample(plan):
    if plan["mode"] == "malformed":
        return plan
    return dict(n=plan["n"], wph=plan["wph"], ops=plan["ops"][:10], net=plan["net"], knobs=plan["knobs"], partition=plan.get("partition"))
