"""`ctl` harness: the real controller + scheduler against a model Bridge (DESIGN.md section 7).

Single-threaded: `recv_events()` advances a small executable model of the cluster by drawn enabled
actions and returns a drawn batch of events.  The model Bridge is also the monitor for the
controller halves of C01-C04 (and C10 in direct-execution mode).
"""
import collections
import hashlib
import traceback

from sim import graphs as G
from sim import jobs as J
from sim import simtasks

NAME = "ctl"
WALL_SPIN_S = 20.0
PRECOMPUTE_WALL_S = 120.0     # generated jobs pre-schedule in milliseconds; two orders of magnitude of slack for a loaded machine


class Violation(Exception):
    def __init__(self, prop, cls, detail, **sig):
        super().__init__(f"{prop} {cls}: {detail}")
        self.prop, self.cls, self.detail, self.sig = prop, cls, detail, sig


class Spin(BaseException):
    pass


class ClusterFailure(Exception):
    """What the real Bridge raises out of recv_events when an executor reports a failure (e.g. a DatasetTransmitFailure
    because a commanded transfer / fetch found its dataset gone)."""


class TaskFailed(Exception):
    """The task body / the runner raised: in the real cluster this is a TaskFailure and the run fails."""

    def __init__(self, task, exc):
        super().__init__(f"{task}: {exc!r}")
        self.task, self.exc = task, exc


class HostMem:
    """dictionary-backed stand-in for runner.memory.Memory (per host)"""

    def __init__(self, store):
        self.store = store

    def handle(self, oid, schema, val, publish):
        self.store[oid] = val

    def provide(self, iid, ann):
        return self.store[iid]


def gen_plan(rng, opts=None):
    o = dict(nmax=14, hmax=4, wmax=3, max_out=4, exec_pct=30)
    o.update(opts or {})
    if o.get("graph"):
        gp = G.gen_graph_plan(rng, o.get("graph_opts"))
        cluster = dict(hosts=rng.randint(1, 3), wph=rng.randint(1, 2), gpus={})
        knobs = dict(p_step=rng.choice([20, 50, 80]), batch=rng.choice([1, 2, 4]), reorder_outputs=rng.choice([0, 30, 100]), swap=0, exec="runner")
        return dict(graph=gp, cluster=cluster, knobs=knobs)
    job = J.gen_job_plan(rng, nmax=o["nmax"], max_out=o["max_out"])
    cluster = J.gen_cluster_plan(rng, job, hmax=o["hmax"], wmax=o["wmax"])
    knobs = dict(p_step=rng.choice([20, 50, 80]), batch=rng.choice([1, 2, 4, 8]),
                 reorder_outputs=rng.choice([0, 0, 30, 100]) if o.get("reorder", True) else 0,
                 swap=rng.choice([0, 0, 0, 10]) if o.get("swap", False) else 0, incremental=rng.choice([0, 50, 100]),
                 exec="runner" if rng.randrange(100) < o["exec_pct"] else "model")
    plan = dict(job=job, cluster=cluster, knobs=knobs)
    if o.get("rerun") and rng.randrange(100) < o["rerun"]:
        # the judged run is the SECOND run of this job with one precompute() result (a repetition, a retry, another cluster shape)
        plan["rerun"] = J.gen_cluster_plan(rng, job, hmax=o["hmax"], wmax=o["wmax"])
    return plan


class ModelBridge:
    def __init__(self, ch, job, jp, env, knobs):
        from cascade.low.views import param_source
        self.ch, self.job, self.jp, self.env, self.knobs = ch, job, jp, env, knobs
        self.ps = param_source(job.edges)
        self.inputs = collections.defaultdict(set)
        self.consumers = collections.defaultdict(set)
        for e in job.edges:
            self.inputs[e.sink_task].add(e.source)
            self.consumers[e.source].add(e.sink_task)
        hosts = sorted({w.host for w in env.workers})
        self.hosts = hosts
        self.store = {h: {} for h in hosts}
        self.purged = {h: set() for h in hosts}
        self.wq = {}
        self.dispatched = collections.Counter()
        self.finished = set()
        self.fifo = {h: [] for h in hosts}
        self.fifo["ctrl"] = []
        self.pending = []
        self.idx = 0
        self.calls = 0
        self.n_recv = self.n_tx = self.n_fetch = 0
        self.produced = set()
        self.delivered_payload = set()
        self.answered = set()
        self.shutdown_calls = 0
        self.log = []
        self.probes = collections.Counter()
        self.h = hashlib.sha256()
        self.delivered_order = collections.defaultdict(list)   # task -> outputs in the order delivered to the controller
        self.inverted_tasks = set()
        self.swapped = False
        self.deferred = []
        self.failure = None
        self.partial = {}     # worker -> number of outputs its running generator task has produced so far

    def defer(self, prop, cls, detail, **sig):
        if not any(d[0] == prop and d[1] == cls for d in self.deferred):
            self.deferred.append((prop, cls, detail, sig))

    def _rec(self, *rec):
        self.log.append(rec)
        self.h.update(repr(rec).encode())

    # ---- Bridge interface
    def get_environment(self):
        return self.env

    def _cmd(self, *rec):
        self.calls += 1
        self._rec(*rec)
        if self.shutdown_calls:
            raise Violation("C03", "command_after_shutdown", rec)

    def _in_transfer(self, ds, host):
        return any(p[0] == "tx" and p[2] == ds and p[4] == host for p in self.pending)

    def task_sequence(self, ts):
        self._cmd("ts", repr(ts.worker), tuple(ts.tasks))
        w = ts.worker
        if w not in self.env.workers:
            raise Violation("C02", "unknown_worker", repr(w))
        if w in self.wq:
            raise Violation("C02", "busy_worker", (repr(w), self.wq[w], ts.tasks))
        for t in ts.tasks:
            if t not in self.job.tasks:
                raise Violation("C02", "unknown_task", t)
            self.dispatched[t] += 1
            if self.dispatched[t] > 1:
                raise Violation("C02", "double_dispatch", t, inverted=bool(self.inverted_tasks))
            if self.job.tasks[t].definition.needs_gpu and self.env.workers[w].gpu < 1:
                raise Violation("C02", "gpu_task_on_cpu_worker", (t, repr(w)))
            for ds in sorted(self.inputs[t], key=repr):
                if ds.task in ts.tasks:
                    continue
                if ds not in self.produced:
                    raise Violation("C02", "input_not_produced", (t, repr(ds)), inverted=bool(self.inverted_tasks))
                if ds in self.purged[w.host] and not self._in_transfer(ds, w.host):
                    raise Violation("C04", "needed_after_purge", (t, repr(ds), w.host))
                if ds not in self.store[w.host]:
                    if not self._in_transfer(ds, w.host):
                        raise Violation("C02", "input_neither_present_nor_in_transfer", (t, repr(ds), w.host))
                    self.probes["dispatch_while_input_in_transfer"] += 1
        if set(ts.publish) != {d for t in ts.tasks for d in self.job.outputs_of(t)}:
            self.probes["publish_subset"] += 1
        self.wq[w] = list(ts.tasks)

    def transmit(self, ds, source, target):
        self._cmd("tx", repr(ds), source, target)
        self.n_tx += 1
        if source not in self.store or target not in self.store:
            raise Violation("C04", "transmit_unknown_host", (repr(ds), source, target))
        if ds not in self.store[source]:
            cls = "transmit_from_purged_host" if ds in self.purged[source] else "transmit_from_host_without_dataset"
            self.defer("C04", cls, (repr(ds), source, target))
            self.failure = f"DatasetTransmitFailure: transmit of {ds!r} from {source}"
            return
        if ds in self.store[target]:
            self.probes["redundant_transfer"] += 1
        self.pending.append(("tx", self.idx, ds, source, target))
        self.idx += 1

    def fetch(self, ds, source):
        self._cmd("fetch", repr(ds), source)
        self.n_fetch += 1
        if source not in self.store:
            raise Violation("C04", "fetch_unknown_host", (repr(ds), source))
        if ds not in self.store[source]:
            cls = "fetch_from_purged_host" if ds in self.purged[source] else "fetch_from_host_without_dataset"
            self.defer("C04", cls, (repr(ds), source))
            self.failure = f"DatasetTransmitFailure: fetch of {ds!r} from {source}"
            return
        if any(p[0] == "fetch" and p[2] == ds for p in self.pending) or ds in self.delivered_payload:
            self.probes["repeated_fetch"] += 1
        self.pending.append(("fetch", self.idx, ds, source))
        self.idx += 1

    def purge(self, host, ds):
        self._cmd("purge", host, repr(ds))
        if host not in self.store:
            raise Violation("C04", "purge_unknown_host", (repr(ds), host))
        # violations of the purge contract are recorded and the purge is applied, as the real executors would: what follows
        # (a transfer or fetch that finds its dataset gone, a requested output that can no longer be delivered) is the
        # consequence C01 / C03 see
        for t in sorted(self.consumers[ds]):
            if t not in self.finished:
                self.defer("C04", "purge_while_consumer_unfinished", (repr(ds), host, t), inverted=bool(self.inverted_tasks))
        if ds in self.job.ext_outputs and ds not in self.delivered_payload:
            self.defer("C04", "purge_before_output_reached_caller", (repr(ds), host))
        for p in self.pending:
            if p[2] == ds and p[3] == host:
                self.defer("C04", f"purge_while_{p[0]}_from_host_pending", (repr(ds), host, p[1]), kind=p[0])
            if p[0] == "tx" and p[2] == ds and p[4] == host:
                self.probes["purge_at_pending_target"] += 1
        if ds not in self.store[host]:
            self.probes["purge_of_absent"] += 1
        self.store[host].pop(ds, None)
        self.purged[host].add(ds)
        self.probes["purge"] += 1

    def shutdown(self):
        self.calls += 1
        self.shutdown_calls += 1
        self._rec("shutdown")

    # ---- model
    def _enabled(self):
        acts = []
        for w in sorted(self.wq, key=repr):
            q = self.wq[w]
            if all(ds in self.store[w.host] for ds in self.inputs[q[0]]):
                acts.append(("run", w))
        for p in self.pending:
            if p[2] in self.store[p[3]]:
                acts.append(p)
            else:
                # the source's data server can no longer serve the command: it reports a DatasetTransmitFailure
                self.defer("C04", "pending_source_lost_dataset", (p[0], p[1], repr(p[2]), p[3]))
                raise ClusterFailure(f"DatasetTransmitFailure: {p[0]} {p[1]} of {p[2]!r} from {p[3]}")
        return acts

    def _do(self, act):
        from cascade.executor.msg import DatasetPublished, DatasetTransmitPayload, DatasetTransmitPayloadHeader
        from cascade.low.core import DatasetId
        import cloudpickle
        if act[0] == "run":
            w = act[1]
            t = self.wq[w][0]
            if self.knobs["exec"] == "runner":
                from cascade.executor.runner.runner import ExecutionContext, run as runner_run
                mem = HostMem(self.store[w.host])
                ctx = ExecutionContext(tasks={t: self.job.tasks[t]}, param_source={t: {k: (d, "Any") for k, d in self.ps[t].items()}},
                                       callback="", publish=set())
                try:
                    runner_run(t, ctx, mem)
                except Exception as e:
                    raise TaskFailed(t, e)
            else:
                outs_all = sorted(self.job.tasks[t].definition.output_schema)
                k = self.partial.get(w, 0)
                if len(outs_all) > 1 and (k > 0 or self.ch.chance(self.knobs.get("incremental", 0))):
                    # a generator task: its outputs are stored and announced one by one (in key order) while the task is still
                    # running and still holds its inputs; it has completed only with the last of them
                    ds = DatasetId(t, outs_all[k])
                    self.store[w.host][ds] = ("val", t, outs_all[k])
                    self.produced.add(ds)
                    self.fifo[w.host].append(DatasetPublished(origin=w, ds=ds, transmit_idx=None))
                    self._rec("M.part", repr(w), t, outs_all[k])
                    self.probes["output_announced_while_task_running"] += 1
                    if k + 1 < len(outs_all):
                        self.partial[w] = k + 1
                        return
                    self.partial.pop(w, None)
                    self.wq[w].pop(0)
                    if not self.wq[w]:
                        del self.wq[w]
                    self.finished.add(t)
                    return
                for o in self.job.tasks[t].definition.output_schema:
                    self.store[w.host][DatasetId(t, o)] = ("val", t, o)
            self.wq[w].pop(0)
            if not self.wq[w]:
                del self.wq[w]
            self.finished.add(t)
            outs = sorted(self.job.tasks[t].definition.output_schema)
            if len(outs) > 1 and self.ch.chance(self.knobs["reorder_outputs"]):
                # each announcement travels through its own PUSH socket: no order between them
                perm = []
                pool = list(outs)
                while pool:
                    perm.append(pool.pop(self.ch.draw(len(pool))))
                if perm != outs:
                    self.probes["announcements_reordered"] += 1
                outs = perm
            for o in outs:
                ds = DatasetId(t, o)
                if ds not in self.store[w.host]:
                    # the task ended without ever producing this declared output: nothing is announced for it
                    self.probes["declared_output_never_produced"] += 1
                    continue
                self.produced.add(ds)
                self.fifo[w.host].append(DatasetPublished(origin=w, ds=ds, transmit_idx=None))
            self._rec("M.run", repr(w), t, tuple(outs))
        elif act[0] == "tx":
            _, idx, ds, s, t = act
            self.pending.remove(act)
            self._rec("M.tx", idx)
            if ds in self.purged[t]:
                self.probes["payload_after_purge_discarded"] += 1
                return
            if ds not in self.store[t]:
                self.store[t][ds] = self.store[s][ds]
                self.fifo[t].append(DatasetPublished(origin=t, ds=ds, transmit_idx=idx))
            else:
                self.probes["redundant_transfer_silent"] += 1
        else:
            _, idx, ds, s = act
            self.pending.remove(act)
            self._rec("M.fetch", idx)
            self.fifo["ctrl"].append(DatasetTransmitPayload(
                header=DatasetTransmitPayloadHeader(confirm_address="", confirm_idx=idx, ds=ds, deser_fun="cloudpickle.loads"),
                value=cloudpickle.dumps(self.store[s][ds])))

    def recv_events(self):
        from cascade.executor.msg import DatasetPublished, DatasetTransmitPayload
        self.calls += 1
        self.n_recv += 1
        if self.shutdown_calls:
            raise Violation("C03", "recv_after_shutdown", None)
        if self.failure:
            raise ClusterFailure(self.failure)
        while True:
            acts = self._enabled()
            have = [h for h, f in self.fifo.items() if f]
            if not acts and not have:
                raise Violation("C03", "wait_with_nothing_outstanding",
                                dict(wq={repr(k): v for k, v in self.wq.items()}, undispatched=sorted(set(self.job.tasks) - set(self.dispatched))),
                                inverted=bool(self.inverted_tasks), swapped=self.swapped)
            if acts and (not have or self.ch.chance(self.knobs["p_step"])):
                self._do(acts[self.ch.draw(len(acts))])
                continue
            out = []
            for _ in range(1 + self.ch.draw(self.knobs["batch"])):
                have = [h for h, f in self.fifo.items() if f]
                if not have:
                    break
                f = self.fifo[have[self.ch.draw(len(have))]]
                i = 0
                if len(f) > 1 and self.ch.chance(self.knobs["swap"]):
                    i = 1
                    self.probes["retransmission_swap"] += 1
                    self.swapped = True
                ev = f.pop(i)
                if isinstance(ev, DatasetTransmitPayload):
                    self.delivered_payload.add(ev.header.ds)
                elif isinstance(ev, DatasetPublished) and ev.transmit_idx is None:
                    t = ev.ds.task
                    self.delivered_order[t].append(ev.ds.output)
                    last = sorted(self.job.tasks[t].definition.output_schema)[-1]
                    if ev.ds.output == last and len(self.delivered_order[t]) < len(self.job.tasks[t].definition.output_schema):
                        self.inverted_tasks.add(t)
                        self.probes["last_output_delivered_before_earlier"] += 1
                out.append(ev)
            self._rec("EV", tuple((type(e).__name__[7:12], repr(getattr(e, "ds", None) or e.header.ds), repr(getattr(e, "origin", "")),
                                   getattr(e, "transmit_idx", None)) for e in out))
            return out


def run(plan, ch, want_log=False):
    """One simulated run.  Returns a result dict; never raises for property violations."""
    import cascade.controller.impl as impl
    from cascade.scheduler.graph import precompute
    cp, knobs = plan["cluster"], plan["knobs"]
    simtasks.reset()
    ginfo = None
    if "graph" in plan:
        try:
            job, gref, ginfo = G.materialise(plan["graph"])
        except G.LoweringFailed as e:
            return dict(harness=NAME, viol=[dict(prop="C10", cls="lowering_raised", detail=str(e), sig={})], probes={}, fired={}, digest="lowering-raised",
                        steps=0, simtime=0.0, stats={}, nontrivial={}, end="lowering-raised", verdict="raised")
        except G.Refused:
            return dict(harness=NAME, viol=[], probes={"lowering_refused_duplicate_names": 1}, fired={}, digest="refused", steps=0, simtime=0.0,
                        stats={}, nontrivial={}, end="refused")
        jp = dict(tasks=[])
        simtasks.reset()
    else:
        jp = plan["job"]
        job = J.build_job(jp)
    env = J.build_env(cp)
    b = ModelBridge(ch, job, jp, env, knobs)
    from sim.kernel import SpinDetected, wall_alarm
    try:
        with wall_alarm(PRECOMPUTE_WALL_S):
            pre = precompute(job)
    except SpinDetected:
        return dict(harness=NAME, viol=[dict(prop="C03", cls="spin", detail="scheduler.graph.precompute did not return", sig={})] +
                    ([dict(prop="C10", cls="lowered_job_can_not_be_scheduled", detail="precompute did not return", sig={})] if ginfo is not None else []),
                    probes={}, fired={}, digest="precompute-spin", steps=0, simtime=0.0, stats={}, nontrivial={}, end="spin/precompute")
    cnt = {"n": 0, "calls": -1, "b": b}
    orig = impl.has_computable

    def hc(state):
        if cnt["b"].calls == cnt["calls"]:
            cnt["n"] += 1
            if cnt["n"] > 1000:
                raise Spin()
        else:
            cnt["calls"], cnt["n"] = cnt["b"].calls, 0
        return orig(state)
    impl.has_computable = hc
    # a loop inside the scheduler that never comes back to the controller loop can not be seen by the counter above:
    # a (very generous) wall-clock alarm turns it into the same verdict instead of hanging the check
    import signal
    import threading

    def _alarm(signum, frame):
        raise Spin()
    use_alarm = threading.current_thread() is threading.main_thread()
    if use_alarm:
        old_alarm = signal.signal(signal.SIGALRM, _alarm)
        signal.setitimer(signal.ITIMER_REAL, WALL_SPIN_S)
    viol = []
    warm_spin = False
    if plan.get("rerun"):
        # warm-up: a complete earlier run of the same job with the same Preschedule object (nothing of it is judged; what it may
        # leave behind in the Preschedule is what the judged run below starts from)
        b0 = ModelBridge(ch, job, jp, J.build_env(plan["rerun"]), dict(knobs, swap=0))
        cnt["b"] = b0
        try:
            impl.run(job, b0, pre)
            b.probes["rerun_after_complete_run"] += 1
        except Spin:
            warm_spin = True
        except Exception:
            b.probes["rerun_after_aborted_run"] += 1
        cnt.update(b=b, n=0, calls=-1)
        simtasks.reset()
        if use_alarm:
            signal.setitimer(signal.ITIMER_REAL, WALL_SPIN_S)      # the alarm is one-shot: armed afresh for the judged run
    D = sum(len(t.definition.output_schema) for t in job.tasks.values())
    H, R = len(b.store), len(job.ext_outputs)
    try:
        if warm_spin:
            raise Spin()       # the warm-up run never came back: the same verdict, and no second attempt
        st = impl.run(job, b, pre)
        if set(st.outputs) != set(job.ext_outputs):
            viol.append(("C01", "wrong_output_keys", (sorted(map(repr, st.outputs)), sorted(map(repr, job.ext_outputs))), {}))
        if ginfo is not None:
            ref = gref
            gsig = dict(unsorted_declared=bool(ginfo["unsorted_declared"]), dup_input_arg=bool(ginfo["dup_input_arg"]), max_outputs=ginfo["max_outputs"])
            if ginfo["expect_failure"]:
                viol.append(("C10", "count_mismatch_not_reported", ginfo["failed"], gsig))
        elif knobs["exec"] == "runner":
            ref = J.refeval_plan(jp)
        for ds, v in st.outputs.items():
            if v is None:
                viol.append(("C01", "missing_output", repr(ds), {}))
            elif ginfo is not None:
                if (ds.task, ds.output) in ref and v != ref[(ds.task, ds.output)]:
                    viol.append(("C10", "value_differs_from_graph_evaluation", (repr(ds), v, ref[(ds.task, ds.output)]),
                                 dict(gsig, node_unsorted=ds.task in ginfo["unsorted_declared"] or any(t in ginfo["unsorted_declared"] for t in _ancestors(job, ds.task)),
                                      node_dup_arg=ds.task in ginfo["dup_input_arg"] or any(t in ginfo["dup_input_arg"] for t in _ancestors(job, ds.task)))))
            elif knobs["exec"] == "runner" and v != ref[(ds.task, ds.output)]:
                viol.append(("C01", "wrong_value", (repr(ds), v, ref[(ds.task, ds.output)]), {}))
            elif knobs["exec"] == "model" and v != ("val", ds.task, ds.output):
                viol.append(("C01", "wrong_value", (repr(ds), v), {}))
        if ginfo is not None and ginfo.get("orig_valueset") is not None and not ginfo["expect_failure"] and all(v is not None for v in st.outputs.values()):
            got, want = {repr(v) for v in st.outputs.values()}, set(ginfo["orig_valueset"])
            if got != want:
                viol.append(("C10", "cascade_of_actions_computes_other_values_than_the_actions", dict(lost=sorted(want - got)[:3], extra=sorted(got - want)[:3],
                                                                                              n_want=len(want), n_got=len(got)), gsig))
        never = sorted(set(job.tasks) - set(b.dispatched))
        if never:
            viol.append(("C02", "task_never_dispatched", never, dict(inverted=bool(b.inverted_tasks), swapped=b.swapped)))
            viol.append(("C03", "returned_with_tasks_incomplete", never, dict(inverted=bool(b.inverted_tasks), swapped=b.swapped)))
        elif set(b.finished) != set(job.tasks):
            viol.append(("C03", "returned_with_tasks_incomplete", sorted(set(job.tasks) - b.finished), dict(inverted=bool(b.inverted_tasks), swapped=b.swapped)))
        if b.shutdown_calls != 1:
            viol.append(("C03", "shutdown_calls", b.shutdown_calls, {}))
        if b.n_recv > D + D * H + R * H + 1:
            viol.append(("C03", "too_many_rounds", (b.n_recv, D, H, R), {}))
        if b.n_tx > D * H or b.n_fetch > R * H:
            viol.append(("C03", "unbounded_recommanding", (b.n_tx, b.n_fetch, D, H, R), {}))
        if b.pending:
            b.probes["finished_with_commands_unanswered"] += 1
    except ClusterFailure as e:
        # the run of a feasible job failed through the controller's own commands
        if job.ext_outputs:
            viol.append(("C01", "run_failed_requested_outputs_not_delivered", str(e)[:200], {}))
        viol.append(("C03", "run_failed_by_own_commands", str(e)[:200], {}))
    except TaskFailed as e:
        if ginfo is not None and ginfo["expect_failure"]:
            b.probes["count_mismatch_reported_as_task_failure"] += 1
        else:
            viol.append(("C10" if ginfo is not None else "C01", "task_failed", (e.task, repr(e.exc)[:200]), {}))
    except Violation as v:
        viol.append((v.prop, v.cls, v.detail, v.sig))
        if v.cls == "wait_with_nothing_outstanding":
            # nothing is in flight and the controller waits: tasks whose inputs all exist but which were never sent to a worker
            ready = sorted(t for t in job.tasks if t not in b.dispatched and all(ds in b.produced for ds in b.inputs[t]))
            if ready:
                viol.append(("C02", "task_never_dispatched", ready, dict(inverted=bool(b.inverted_tasks), swapped=b.swapped)))
            undelivered = [repr(d) for d in job.ext_outputs if d not in b.delivered_payload]
            if undelivered and not ready and set(b.finished) == set(job.tasks):
                viol.append(("C01", "requested_output_never_fetched", undelivered[:4], {}))
            elif undelivered:
                # the controller waits for ever with nothing in flight: whatever the reason, the caller never gets what it asked for
                viol.append(("C01", "requested_output_never_delivered_run_waits_for_ever", undelivered[:4], {}))
        if ginfo is not None and ginfo["expect_failure"] and v.cls == "wait_with_nothing_outstanding":
            # a generator that did not yield what its node declares was not reported: the controller waits for ever for the missing output
            viol.append(("C10", "count_mismatch_not_reported", (ginfo["failed"], v.detail), {}))
        if b.shutdown_calls != 1:
            b.probes["no_shutdown_after_violation"] += 1
    except Spin:
        viol.append(("C03", "spin", dict(undispatched=sorted(set(job.tasks) - set(b.dispatched))), dict(inverted=bool(b.inverted_tasks), swapped=b.swapped)))
        if any(d not in b.delivered_payload for d in job.ext_outputs):
            viol.append(("C01", "requested_output_never_delivered_run_spins", [repr(d) for d in job.ext_outputs if d not in b.delivered_payload][:4], {}))
    except Exception as e:
        tb = traceback.format_exc().strip().split("\n")
        where = next((l.strip() for l in reversed(tb) if "/cascade/" in l), tb[-3].strip() if len(tb) > 2 else "")
        own = "/verif/" in where or "harness" in where or not any("/cascade/" in l for l in tb)
        viol.append(("HARNESS" if own else "C03", "bookkeeping_exception", (repr(e)[:160], where[:160]),
                     dict(inverted=bool(b.inverted_tasks), swapped=b.swapped, exc=type(e).__name__)))
        never = sorted(set(job.tasks) - set(b.dispatched))
        if not own and never:
            viol.append(("C02", "run_aborted_with_tasks_never_dispatched", (never[:6], repr(e)[:120]), dict(exc=type(e).__name__)))
        if not own and job.ext_outputs:
            # whatever the reason, the caller did not get the datasets it asked for
            viol.append(("C01", "run_raised_requested_outputs_not_delivered", (repr(e)[:160], where[:160]), dict(exc=type(e).__name__)))
        if not own and b.shutdown_calls != 1:
            viol.append(("C03", "no_shutdown_after_error", b.shutdown_calls, {}))
    finally:
        viol.extend(b.deferred)
        if use_alarm:
            signal.setitimer(signal.ITIMER_REAL, 0)
            signal.signal(signal.SIGALRM, old_alarm)
        impl.has_computable = orig
    if ginfo is not None:
        for cls, detail in ginfo["structural"]:
            viol.append(("C10", cls, detail, dict(dup_input_arg=bool(ginfo["dup_input_arg"]))))
    multi_comp = len({t["comp"] for t in jp["tasks"]}) > 1
    nontrivial = dict(
        C01=len(job.tasks) >= 2 and bool(job.ext_outputs) and b.n_tx + b.n_fetch > 0,
        C02=b.probes["dispatch_while_input_in_transfer"] > 0,
        C03=multi_comp or len(job.tasks) >= 6,
        C04=b.n_tx > 0 and b.probes["purge"] > 0,
        C10=(ginfo is not None and (ginfo["max_outputs"] > 1 or bool(job.edges))),
    )
    res = dict(harness=NAME, viol=[dict(prop=p, cls=c, detail=repr(d)[:400], sig=s) for p, c, d, s in viol],
               probes=dict(b.probes), fired={}, digest=b.h.hexdigest()[:16], steps=b.calls, simtime=0.0,
               stats=dict(tasks=len(job.tasks), hosts=H, workers=len(env.workers), ntx=b.n_tx, nfetch=b.n_fetch, rounds=b.n_recv,
                          exec=knobs["exec"]),
               nontrivial=nontrivial, end="returned" if not viol else "violation")
    if want_log:
        res["log"] = [repr(l) for l in b.log]
    return res


def _ancestors(job, task):
    seen, todo = set(), [task]
    while todo:
        t = todo.pop()
        for e in job.edges:
            if e.sink_task == t and e.source.task not in seen:
                seen.add(e.source.task)
                todo.append(e.source.task)
    return seen


def shrink_candidates(plan):
    import copy
    if "graph" in plan:
        for gp in G.shrink_graph_candidates(plan["graph"]):
            c = copy.deepcopy(plan)
            c["graph"] = gp
            yield c
        for cp in J.shrink_cluster_candidates(plan["cluster"]):
            c = copy.deepcopy(plan)
            c["cluster"] = cp
            yield c
        return
    for jp in J.shrink_job_candidates(plan["job"]):
        c = copy.deepcopy(plan)
        c["job"] = jp
        if J.feasible(jp, c["cluster"]):
            yield c
    for cp in J.shrink_cluster_candidates(plan["cluster"]):
        c = copy.deepcopy(plan)
        c["cluster"] = cp
        if J.feasible(c["job"], cp):
            yield c
    k = plan["knobs"]
    for key, val in (("batch", 1), ("swap", 0), ("reorder_outputs", 0), ("exec", "model")):
        if k[key] != val:
            c = copy.deepcopy(plan)
            c["knobs"][key] = val
            yield c


def sample(plan):
    if "graph" in plan:
        return plan
    return dict(tasks=[(t["name"], t["nout"], [tuple(e) for e in t["inputs"]]) for t in plan["job"]["tasks"]][:8],
                ext=plan["job"]["ext"], cluster=plan["cluster"], knobs=plan["knobs"])
