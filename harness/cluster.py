"""`cluster` harness: the whole real cluster (Bridge + controller.run, Executors, data servers, shm servers,
workers) as baton threads on the simulated network (DESIGN.md section 7)."""
import collections
import copy
import sys

from sim import fakes, wire
from sim import graphs as G
from sim import jobs as J
from sim import simtasks
from sim.kernel import Kernel, SimKilled, SimProc, SpinDetected

NAME = "cluster"
CTRL = "tcp://localhost:12000"
FAULT_DEADLINE_S = 300      # C05 clause 1: run() must end within this much virtual time after the last fault fired
FAULT_DEADLINE_LOSSY_S = 450   # ... on a lossy network: a lost ExecutorShutdown is not resent, Bridge.shutdown then waits out its 180 s grace,
                               # and it runs twice (once inside recv_events, once in run()'s finally)
CLEAN_DEADLINE_S = 200      # C05 clause 3: everything gone within this much after run() ended


def gen_plan(rng, opts=None):
    o = dict(nmax=8, hmax=3, wmax=2, max_out=3, lossy=False, jitter=True, faults=None, gpu=True, fair=False, slow=False, blob=True)
    o.update(opts or {})
    if o.get("graph"):
        gp = G.gen_graph_plan(rng, o.get("graph_opts"))
        lat_hi = rng.choice([50_000, 50_000, 2_000_000, 50_000_000])
        return dict(graph=gp, cluster=dict(hosts=rng.randint(1, 3), wph=rng.randint(1, 2), gpus={}), net=dict(lat_lo=50_000, lat_hi=lat_hi, drop=0, dup=0), faults=[])
    job = J.gen_job_plan(rng, nmax=o["nmax"], max_out=o["max_out"], ncomp_max=3, gpu=o["gpu"], p_empty=0.02)
    for t in job["tasks"]:
        t["work_ms"] = rng.choice([0, 0, 0, 1, 20, 300])
    if job["tasks"] and rng.random() < (0.4 if o["lossy"] else 0.1):
        # one task that outlasts a whole retry budget (20 x 800 ms): whatever was lost before it started must have been repaired,
        # or given up on, by the time it ends
        rng.choice(job["tasks"])["work_ms"] = rng.choice([20_000, 40_000])
    if o.get("blob") and rng.random() < 0.5:
        for t in job["tasks"]:
            t["blob"] = rng.random() < 0.6      # values with a zero-copy custom serde (JobInstance.serdes)
    cluster = J.gen_cluster_plan(rng, job, hmax=o["hmax"], wmax=o["wmax"])
    if o["jitter"]:
        lat_hi = rng.choice([50_000, 2_000_000, 2_000_000, 50_000_000, 900_000_000])
    else:
        lat_hi = 50_000
    net = dict(lat_lo=50_000, lat_hi=lat_hi, drop=0, dup=0)
    if o["lossy"]:
        net.update(drop=rng.choice([0, 5, 15, 30]), dup=rng.choice([0, 5, 15]), max_consec=rng.choice([3, 8, None]))
        if o.get("fair"):
            # fair loss: every logical message loses at most 6 of its frames/acks (retry budget 20), latencies below the resend grace
            net.update(max_consec=rng.choice([2, 4, 6]), lat_hi=min(net["lat_hi"], 50_000_000))
    faults = []
    kinds = o["faults"]
    if kinds:
        names = [t["name"] for t in job["tasks"]]
        procs = [f"h{h}.w{w}" for h in range(cluster["hosts"]) for w in range(cluster["wph"])]
        for _ in range(rng.choice([1, 1, 1, 2])):
            k = rng.choice(kinds)
            if k in ("task_raise", "task_exit0", "task_exit3", "task_raise_mid") and names:
                faults.append(dict(kind=k, task=rng.choice(names), at=rng.randint(0, 3)))
            elif k == "kill_worker":
                faults.append(dict(kind="kill", proc=rng.choice(procs), after=rng.randint(0, 120)))
            elif k == "kill_data":
                faults.append(dict(kind="kill", proc=f"h{rng.randrange(cluster['hosts'])}.data", after=rng.randint(0, 200)))
            elif k == "kill_shm":
                faults.append(dict(kind="kill", proc=f"h{rng.randrange(cluster['hosts'])}.shm", after=rng.randint(0, 200)))
    if o.get("slow"):
        pool = [f"h{h}.{k}" for h in range(cluster["hosts"]) for k in ["shm", "data"] + [f"w{w}" for w in range(cluster["wph"])]] + [f"h{h}" for h in range(cluster["hosts"])]
        for _ in range(rng.choice([0, 1, 1, 2])):
            # a process that is stopped for a while (seconds) at its n-th seam call after registration, then resumes
            faults.append(dict(kind="stall", proc=rng.choice(pool), after=rng.randint(0, 150), ms=rng.choice([300, 1500, 3000, 7000])))
    slow = []
    if o.get("slow") and rng.random() < 0.6:
        # a slow or stalled node: one host (with all its processes), one worker, one data server, or the controller
        pool = [f"h{h}" for h in range(cluster["hosts"])] + [f"h{h}.w{w}" for h in range(cluster["hosts"]) for w in range(cluster["wph"])] \
            + [f"h{h}.data" for h in range(cluster["hosts"])] + ["ctrl"]
        slow = rng.sample(pool, rng.choice([1, 1, 2]))
    return dict(job=job, cluster=cluster, net=net, faults=faults, slow=slow)


class Mon:
    """Cross-cutting monitors installed by wrapping module attributes from outside (restored after the run)."""

    def __init__(self, K, plan, job):
        self.K, self.plan, self.job = K, plan, job
        self.viol = []
        self.started = collections.Counter()
        self.managers = {}
        self.teardown = {}            # host / "ctrl" -> virtual time teardown began
        self.sent = collections.Counter()       # (dest address, pickled message) -> count handed to the acked layer
        self.recvd = collections.Counter()      # (listener address, pickled message) -> count returned to the application
        self.gaveup = []
        self.task_failures = []
        self.transmit_failures = []
        self.executor_failures = []
        self.reg = None
        self.reg_nseam = {}
        self._undo = []

    def v(self, prop, cls, detail, **sig):
        self.viol.append((prop, cls, detail, sig))

    def patch(self, obj, name, new):
        old = getattr(obj, name)
        setattr(obj, name, new)
        self._undo.append((obj, name, old))
        return old

    def undo(self):
        for obj, name, old in reversed(self._undo):
            setattr(obj, name, old)

    def install(self):
        import cascade.controller.impl as impl
        import cascade.executor.bridge as bridge
        import cascade.executor.comms as comms
        import cascade.executor.executor as executor
        import cascade.executor.runner.entrypoint as ep
        import cascade.shm.dataset as dataset
        from cascade.executor.msg import Ack, DatasetTransmitFailure, ExecutorFailure, TaskFailure
        from cascade.executor.runner.memory import ds2shmid
        from cascade.executor.serde import ser_message
        K, mon = self.K, self

        # --- spin watchdog on the controller loop
        cnt = {"steps": -1, "n": 0}
        orig_hc = impl.has_computable

        def hc(state):
            if K.steps == cnt["steps"]:
                cnt["n"] += 1
                if cnt["n"] > 1000:
                    raise SpinDetected()
            else:
                cnt["steps"], cnt["n"] = K.steps, 0
            return orig_hc(state)
        self.patch(impl, "has_computable", hc)

        # --- shm managers (to look at what a host's store holds)
        orig_minit = dataset.Manager.__init__

        def minit(self_, *a, **kw):
            orig_minit(self_, *a, **kw)
            mon.managers[K.cur().proc.name] = self_
        self.patch(dataset.Manager, "__init__", minit)

        # --- worker half of C02: when a worker starts a sequence every input is completely written on its host
        orig_es = ep.execute_sequence

        def es(taskSequence, memory, pckg, runnerContext):
            host = runnerContext.workerId.host
            mgr = mon.managers.get(f"{host}.shm")
            own = {d for t in taskSequence.tasks for d in runnerContext.job.outputs_of(t)}
            for t in taskSequence.tasks:
                mon.started[t] += 1
                for ds in runnerContext.param_source[t].values():
                    if ds in own:
                        continue
                    d = mgr.datasets.get(ds2shmid(ds)) if mgr is not None else None
                    if d is None or d.status == dataset.DatasetStatus.created:
                        mon.v("C02", "task_started_before_input_on_host", (t, repr(ds), repr(runnerContext.workerId)))
            return orig_es(taskSequence, memory, pckg, runnerContext)
        self.patch(ep, "execute_sequence", es)

        # --- probe: a task command that reaches the worker before the publication notice of one of its inputs (C02's
        #     "command overtakes the notice" schedule): seen on the worker's own socket
        from cascade.executor.msg import DatasetPublished as _DP, TaskSequence as _TS
        from cascade.executor.serde import des_message as _des
        seen_by_worker = collections.defaultdict(set)

        def zrecv(addr, frames):
            if not addr.startswith("ipc:///tmp/") or len(frames) != 1:
                return
            try:
                m = _des(frames[0])
            except Exception:
                return
            if isinstance(m, _DP):
                seen_by_worker[addr].add(m.ds)
            elif isinstance(m, _TS):
                own = {d for t in m.tasks for d in mon.job.outputs_of(t)}
                need = {e.source for e in mon.job.edges if e.sink_task in m.tasks} - own
                if need - seen_by_worker[addr]:
                    K.probe("task_command_overtook_input_notice")
        K.handlers["zrecv"].append(zrecv)

        # --- teardown markers
        orig_bs = bridge.Bridge.shutdown

        def bs(self_):
            mon.teardown.setdefault("ctrl", K.now)
            return orig_bs(self_)
        self.patch(bridge.Bridge, "shutdown", bs)
        orig_term = executor.Executor.terminate

        def term(self_):
            mon.teardown.setdefault(self_.host, K.now)
            return orig_term(self_)
        self.patch(executor.Executor, "terminate", term)

        # --- acked layer: what was handed over, what came out (C06 safety inside the cluster)
        orig_send = comms.ReliableSender.send

        def rsend(self_, host, m):
            addr = self_.hosts[host][1] if host in self_.hosts else None
            mon.sent[(fakes.Net.norm(addr) if addr else None, ser_message(m))] += 1
            return orig_send(self_, host, m)
        self.patch(comms.ReliableSender, "send", rsend)
        orig_retry = comms.ReliableSender.maybe_retry

        def rretry(self_):
            try:
                return orig_retry(self_)
            except ValueError as e:
                mon.gaveup.append((self_.address, str(e)[:80], K.now))
                raise
        self.patch(comms.ReliableSender, "maybe_retry", rretry)
        orig_recv = comms.Listener.recv_messages

        def lrecv(self_, timeout_ms=comms.default_timeout_ms):
            ms = orig_recv(self_, timeout_ms)
            for m in ms:
                if isinstance(m, Ack):
                    continue
                if isinstance(m, TaskFailure):
                    mon.task_failures.append((m.worker, m.task, m.detail[:200], K.now))
                elif isinstance(m, DatasetTransmitFailure):
                    mon.transmit_failures.append((m.host, m.detail[:200], K.now))
                elif isinstance(m, ExecutorFailure):
                    mon.executor_failures.append((m.host, m.detail[:200], K.now))
                try:
                    mon.recvd[(fakes.Net.norm(self_.address), ser_message(m))] += 1
                except Exception:
                    pass
            return ms
        self.patch(comms.Listener, "recv_messages", lrecv)


def run(plan, ch, want_log=False):
    from cascade.controller.impl import run as ctl_run
    from cascade.executor.bridge import Bridge
    from cascade.executor.executor import Executor
    from cascade.scheduler.graph import precompute
    cp, net = plan["cluster"], plan["net"]
    faults = plan.get("faults") or []
    ginfo = None
    if "graph" in plan:
        simtasks.reset()
        try:
            job, ref, ginfo = G.materialise(plan["graph"])
        except G.LoweringFailed as e:
            return dict(harness=NAME, viol=[dict(prop="C10", cls="lowering_raised", detail=str(e), sig={})], probes={}, fired={}, digest="lowering-raised",
                        steps=0, simtime=0.0, stats={}, nontrivial={}, end="lowering-raised", verdict="raised")
        except G.Refused:
            return dict(harness=NAME, viol=[], probes={"lowering_refused_duplicate_names": 1}, fired={}, digest="refused", steps=0, simtime=0.0,
                        stats={}, nontrivial={}, end="refused", verdict="refused")
        jp = dict(tasks=[])
    else:
        jp = plan["job"]
        job = J.build_job(jp)
        ref = J.refeval_plan(jp)
    from sim.kernel import wall_alarm
    try:
        with wall_alarm(120):
            pre = precompute(job)
    except SpinDetected:
        return dict(harness=NAME, viol=[dict(prop="C03", cls="spin", detail="scheduler.graph.precompute did not return within 120 s of wall time", sig={})],
                    probes={}, fired={}, digest="precompute-spin", steps=0, simtime=0.0, stats={}, nontrivial={}, end="spin/precompute", verdict="hang")
    K = Kernel(ch, max_steps=400_000, max_time_ns=3600 * 10**9)
    if want_log:
        K.tracelog = []
    ctrl_norm = fakes.Net.norm(CTRL)

    def faultable(frames, addr):
        # everything that crosses the network: the acknowledged layer's own frames, and ANY frame an executor-side process sends
        # to the controller's listener (on the unchanged tree there is none that is not a Syn/Ack; a notice passed on with the
        # fire-and-forget helper is exactly what a lossy link loses)
        if wire.faultable(frames, addr):
            return True
        cur = K.cur()
        return addr == ctrl_norm and cur is not None and cur.proc.name != "ctrl"
    ncfg = dict(lat=(net["lat_lo"], net["lat_hi"]), faultable=faultable, drop_pct=net.get("drop", 0), dup_pct=net.get("dup", 0),
                max_drops_per_message=net.get("max_consec"), fault_key=wire.fault_key, plan=net.get("plan"))
    fakes.new_world(K, ncfg)
    if plan.get("slow"):
        K.slow = tuple(plan["slow"])
        K.fire("slow_process")
    simtasks.reset()
    mon = Mon(K, plan, job)
    result = {}
    hosts, wph = cp["hosts"], cp["wph"]
    task_faults = {f["task"]: f for f in faults if f["kind"].startswith("task_")}
    kills = [dict(f) for f in faults if f["kind"] in ("kill", "stall")]   # copies: the plan itself is never mutated
    work = {t["name"]: t.get("work_ms", 0) for t in jp["tasks"]}
    if ginfo is not None:
        work = {}
    fstate = dict(last_fault=None, fired=[])
    fault_deadline = FAULT_DEADLINE_LOSSY_S if (net.get("drop") or net.get("dup")) else FAULT_DEADLINE_S
    fstate["deadline"] = fault_deadline

    def fault_fired(kind, what):
        fstate["last_fault"] = K.now
        fstate["fired"].append((kind, what, K.now))
        K.fire(kind)

    def on_start(tag, args, kwargs):
        if work.get(tag):
            K.sleep(work[tag] * 1_000_000)
        f = task_faults.get(tag)
        if f is None:
            return
        if f["kind"] == "task_raise":
            fault_fired("task_raise", tag)
            raise RuntimeError(f"injected failure in {tag}")
        if f["kind"] == "task_exit0":
            fault_fired("task_exit0", tag)
            sys.exit(0)
        if f["kind"] == "task_exit3":
            fault_fired("task_exit3", tag)
            sys.exit(3)

    def on_yield(tag, i):
        f = task_faults.get(tag)
        if f is not None and f["kind"] == "task_raise_mid" and i == min(f.get("at", 1), 1):
            fault_fired("task_raise_mid", tag)
            raise RuntimeError(f"injected failure in {tag} at output {i}")
    simtasks.on_start, simtasks.on_yield = on_start, on_yield

    reg_nseam = mon.reg_nseam

    def seam_hook(thread, kind, args):
        if not kills or mon.reg is None:
            return
        p = thread.proc
        for f in kills:
            if f.get("done") or f["proc"] != p.name:
                continue
            if p.nseam - reg_nseam.get(p.name, 0) >= f["after"]:
                f["done"] = True
                if f["kind"] == "stall":
                    K.stall(p, f["ms"] * 1_000_000)      # not a crash: every fault-free oracle still applies
                    continue
                if mon.teardown:
                    return     # teardown is not a fault: the property speaks of points of a run
                fault_fired("kill:" + p.name.split(".")[-1].rstrip("0123456789"), p.name)
                K.kill(p, "fault")
    K.seam_hooks.append(seam_hook)

    def launch(i):
        e = Executor(job, CTRL, wph, f"h{i}", 12001 + 10 * i)
        e.register()
        e.recv_loop()

    def controller():
        try:
            b = Bridge(CTRL, hosts)
        except SimKilled:
            raise
        except BaseException as e:  # noqa
            result["error"] = "registration: " + repr(e)[:200]
            result["t_end"] = K.now
            return
        mon.reg = K.now
        for p in K.procs:
            reg_nseam[p.name] = p.nseam
        result["registered"] = K.now
        try:
            st = ctl_run(job, b, pre)
            result["outputs"] = dict(st.outputs)
        except SimKilled:
            raise
        except SpinDetected:
            result["spin"] = True
            result["error"] = "SPIN"
        except Exception as e:
            result["error"] = repr(e)[:300]
        result["t_end"] = K.now

    for i in range(hosts):
        p = SimProc(K, f"h{i}", toplevel=True)
        g = cp["gpus"].get(str(i), 0)
        if g:
            p.env["CASCADE_GPU_COUNT"] = str(g)
        p.start(lambda i=i: launch(i))
    pc = SimProc(K, "ctrl", toplevel=True)
    pc.start(controller)

    def stop_when():
        if "t_end" in result:
            if all(p.exitcode is not None for p in K.procs):
                return True
            return K.now > result["t_end"] + (CLEAN_DEADLINE_S + 20) * 10**9
        if fstate["last_fault"] is not None:
            return K.now > fstate["last_fault"] + (fault_deadline + 20) * 10**9
        return K.now - K.t0 > 1500 * 10**9
    K.stop_when = stop_when

    mon.install()
    try:
        end = K.run(wall_timeout=180)
    finally:
        mon.undo()
        simtasks.reset()
    return _judge(plan, jp, job, K, mon, result, fstate, end, want_log, ref, ginfo)


def _judge(plan, jp, job, K, mon, result, fstate, end, want_log, ref, ginfo):
    net = plan["net"]
    lossy = bool(net.get("drop") or net.get("dup") or (net.get("plan") or {}).get("drop") or (net.get("plan") or {}).get("dup"))
    fired = fstate["fired"]
    faulted = bool(fired)
    viol = list(mon.viol)
    ntasks = len(job.tasks)
    verdict = "returned" if "outputs" in result else ("raised" if "error" in result else "hang")
    t_end = result.get("t_end")
    sig_base = dict(faults=sorted({k for k, _, _ in fired}), lossy=lossy)

    # ---- values (C01; C05 clause 2)
    wrong = []
    if verdict == "returned":
        outs = result["outputs"]
        if set(outs) != set(job.ext_outputs):
            wrong.append(("keys", sorted(map(repr, outs))))
        for d in job.ext_outputs:
            v = outs.get(d)
            if v is None:
                wrong.append(("missing", repr(d)))
            elif (d.task, d.output) in ref and v != ref[(d.task, d.output)]:
                wrong.append(("value", repr(d), v, ref[(d.task, d.output)]))
    if ginfo is not None:
        gsig = dict(node_unsorted=bool(ginfo["unsorted_declared"]), node_dup_arg=bool(ginfo["dup_input_arg"]), max_outputs=ginfo["max_outputs"])
        if wrong:
            viol.append(("C10", "value_differs_from_graph_evaluation", wrong[:3], gsig))
        for cls, detail in ginfo["structural"]:
            viol.append(("C10", cls, detail, gsig))
        if ginfo["expect_failure"] and verdict == "returned":
            fewer = any("yielded" in w and int(w.split("declared ")[1].split(",")[0]) > int(w.split("yielded ")[1]) for w in ginfo["failed"].values())
            if fewer or net["lat_hi"] == net["lat_lo"]:
                viol.append(("C10", "count_mismatch_not_reported", ginfo["failed"], gsig))
        if ginfo["expect_failure"] and verdict == "raised":
            K.probe("count_mismatch_reported_as_task_failure")
        if not ginfo["expect_failure"] and verdict != "returned":
            viol.append(("C10", "graph_run_did_not_return", dict(verdict=verdict, error=result.get("error"), tf=mon.task_failures[:2]), gsig))
        wrong = []
    if wrong:
        viol.append(("C05" if faulted else "C01", "wrong_value", wrong[:3], sig_base))

    # ---- executions per task (C02 exactly-once; C03 all tasks completed)
    multi = {t: n for t, n in mon.started.items() if n > 1}
    if multi:
        viol.append(("C02", "task_executed_twice", multi, sig_base))
    if verdict == "returned" and not faulted and ginfo is None:
        never = sorted(set(job.tasks) - set(mon.started))
        if never:
            viol.append(("C03", "returned_with_tasks_never_executed", never, sig_base))

    # ---- termination
    helper_crashes = []
    for name, err, tb in K.crashes:
        host = name.split(".")[0]
        td = mon.teardown.get(host, mon.teardown.get("ctrl"))
        helper_crashes.append((name, err[:200], td is not None))
    early_crashes = [c for c in helper_crashes if not c[2] and c[0] != "ctrl"]
    fair_loss = lossy and net.get("max_consec") is not None and net["max_consec"] <= 6 and net["lat_hi"] <= 50_000_000
    if not faulted and (not lossy or fair_loss) and ginfo is None and verdict in ("hang", "raised") and job.ext_outputs:
        # (fair loss: every logical message loses fewer frames than the retry budget - the acknowledged layer has to absorb that)
        viol.append(("C01", "requested_outputs_not_delivered", dict(verdict=verdict, error=result.get("error"), tf=mon.task_failures[:2],
                                                                    ef=mon.executor_failures[:2]), sig_base))
    if ginfo is not None and ginfo["expect_failure"]:
        if verdict == "hang":
            viol.append(("C10", "count_mismatch_not_reported", dict(hang=end, failed=ginfo["failed"]), {}))
    elif not faulted:
        if verdict == "hang" or result.get("spin"):
            if lossy and _lost_for_good(K, mon):
                viol.append(("C06", "lost_message_never_retried_nor_reported", _lost_for_good(K, mon)[:3], sig_base))
                if fair_loss:
                    # every message lost fewer frames than the retry budget: the run of a feasible job still has to end
                    viol.append(("C03", "hang_under_fair_loss", dict(end=end, started=len(mon.started), tasks=ntasks), sig_base))
            else:
                viol.append(("C03", "spin" if result.get("spin") else "hang", dict(end=end, started=len(mon.started), tasks=ntasks,
                             crashes=[c[:2] for c in helper_crashes][:3]), sig_base))
        elif verdict == "raised":
            cls = "run_raised"
            prop = "C03"
            if mon.transmit_failures or any(".data" in c[0] for c in early_crashes):
                prop, cls = "C04", "transmit_failure_or_data_server_crash"
            elif mon.gaveup:
                prop, cls = "C06", "sender_gave_up_under_fair_loss"
            viol.append((prop, cls, dict(error=result.get("error"), tf=mon.task_failures[:2], xf=mon.transmit_failures[:2], ef=mon.executor_failures[:2],
                                         crashes=[c[:2] for c in early_crashes][:3]), sig_base))
        elif early_crashes:
            prop = "C04" if any(".data" in c[0] for c in early_crashes) else "C03"
            viol.append((prop, "helper_process_crashed", [c[:2] for c in early_crashes][:3], sig_base))
    else:
        last = fstate["last_fault"]
        if verdict == "hang" or t_end is None or t_end - last > fstate["deadline"] * 10**9:
            # was the executor's one and only failure report dropped on the wire?  (it is sent once, then the executor terminates)
            from cascade.executor.msg import ExecutorFailure
            from cascade.executor.serde import des_message
            lost_report = False
            for (addr, raw), n in mon.sent.items():
                if mon.recvd.get((addr, raw), 0) < n and isinstance(des_message(raw), ExecutorFailure):
                    lost_report = True
            viol.append(("C05", "hang", dict(end=end, after_s=None if t_end is None else (t_end - last) / 1e9, fired=[(k, w) for k, w, _ in fired],
                                             executor_failure_report_lost=lost_report),
                         dict(sig_base, fault=fired[-1][0], executor_failure_report_lost=lost_report)))
        if verdict == "returned" and not wrong:
            K.probe("run_succeeded_despite_fault")

    # ---- a run without any injected fault must not produce a failure report at all (clean completion)
    if not faulted and not lossy and verdict == "returned" and ginfo is None:
        from cascade.executor.msg import ExecutorFailure
        from cascade.executor.serde import des_message
        spurious = [des_message(raw) for (addr, raw), n in mon.sent.items() if isinstance(des_message(raw), ExecutorFailure)]
        if spurious:
            viol.append(("C05", "failure_reported_after_normal_completion", [repr(m)[:160] for m in spurious[:2]], sig_base))
    # ---- clean exit (C05 clause 3), after every run that ended
    if t_end is not None:
        live = set(getattr(K, "live_at_end", []))
        left = sorted(p.name for p in K.procs if p.name != "ctrl" and p.main is not None and p.main.name in live)
        segs = sorted(K.segments)
        kinds = sorted({k for k, _, _ in fired}) or ["none"]
        if left:
            viol.append(("C05", "child_left", dict(left=left, end=end), dict(sig_base, fault=kinds[-1], left_kinds=sorted({n.split(".")[-1].rstrip("0123456789") or "executor" for n in left}))))
        if segs and not left:
            viol.append(("C05", "segment_left", dict(n=len(segs), end=end, fired=kinds), dict(sig_base, fault=kinds[-1], shm_killed="kill:shm" in kinds)))
        elif segs:
            K.probe("segments_left_with_children")

    stats = dict(tasks=ntasks, hosts=plan["cluster"]["hosts"], workers=plan["cluster"]["hosts"] * plan["cluster"]["wph"],
                 sent=K.net.stats["sent"], dropped=K.net.stats["dropped"], dup=K.net.stats["dup"], threads=len(K.threads))
    cross = K.net.stats["sent"] > 0 and plan["cluster"]["hosts"] > 1
    fault_during_work = faulted and len(mon.started) < ntasks or (faulted and verdict != "returned")
    nontrivial = dict(C01=ntasks >= 2 and bool(job.ext_outputs) and cross, C02=ntasks >= 2 and cross, C03=ntasks >= 2,
                      C04=ntasks >= 2 and cross, C05=bool(fault_during_work) if faulted else False,
                      C06=K.net.stats["dropped"] + K.net.stats["dup"] > 0, C10=ginfo is not None and (ginfo["max_outputs"] > 1 or bool(job.edges)))
    res = dict(harness=NAME, viol=[dict(prop=p, cls=c, detail=repr(d)[:500], sig=s) for p, c, d, s in viol], probes=dict(K.probes), fired=dict(K.fired),
               digest=K.digest(), steps=K.steps, simtime=(K.now - K.t0) / 1e9, stats=stats, nontrivial=nontrivial,
               end=f"{verdict}/{end}", verdict=verdict,
               kill_ranges={p.name: p.nseam - mon.reg_nseam.get(p.name, 0) for p in K.procs
                            if mon.reg is not None and p.name.count(".") == 1 and p.name in mon.reg_nseam})
    if want_log:
        res["log"] = K.tracelog
        res["result"] = {k: (repr(v)[:300]) for k, v in result.items()}
        res["crashes"] = [(a, b, c[-800:]) for a, b, c in K.crashes]
        res["fired_list"] = fired
    return res


def _lost_for_good(K, mon):
    """Messages handed to the acked layer more often than they came out at the destination, with no sender having raised."""
    if mon.gaveup:
        return []
    out = []
    for (addr, raw), n in mon.sent.items():
        if mon.recvd.get((addr, raw), 0) < n:
            from cascade.executor.serde import des_message
            out.append((addr, type(des_message(raw)).__name__))
    return out


def expand(plan, res, rng, cap, kinds):
    """Single-fault enumeration along the recorded schedule of a fault-free base run: one derived plan per
    candidate fault point (every seam call after registration of every worker / data server / shm server; every
    task x failure mode).  Returns (derived plans, total number of points)."""
    pts = []
    for pname, n in sorted(res.get("kill_ranges", {}).items()):
        kind = pname.split(".")[-1].rstrip("0123456789")
        if {"w": "kill_worker", "data": "kill_data", "shm": "kill_shm"}.get(kind) in kinds:
            pts += [dict(kind="kill", proc=pname, after=k) for k in range(n + 1)]
    if "task" in kinds:
        for t in plan["job"]["tasks"]:
            for k in ("task_raise", "task_exit0", "task_exit3") + (("task_raise_mid",) if t["nout"] > 1 else ()):
                pts.append(dict(kind=k, task=t["name"], at=1))
    total = len(pts)
    if cap is not None and len(pts) > cap:
        pts = [pts[i] for i in sorted(rng.sample(range(len(pts)), cap))]
    out = []
    for f in pts:
        c = copy.deepcopy(plan)
        c["faults"] = [f]
        out.append(c)
    return out, total


def shrink_candidates(plan):
    if "graph" in plan:
        for gp in G.shrink_graph_candidates(plan["graph"]):
            c = copy.deepcopy(plan)
            c["graph"] = gp
            yield c
        for cp in J.shrink_cluster_candidates(plan["cluster"]):
            c = copy.deepcopy(plan)
            c["cluster"] = cp
            yield c
        return
    for jp in J.shrink_job_candidates(plan["job"]):
        c = copy.deepcopy(plan)
        c["job"] = jp
        names = {t["name"] for t in jp["tasks"]}
        c["faults"] = [f for f in c.get("faults", []) if f.get("task") is None or f["task"] in names]
        if J.feasible(jp, c["cluster"]):
            yield c
    for cp in J.shrink_cluster_candidates(plan["cluster"]):
        c = copy.deepcopy(plan)
        c["cluster"] = cp
        valid = {f"h{h}.w{w}" for h in range(cp["hosts"]) for w in range(cp["wph"])} | {f"h{h}.{k}" for h in range(cp["hosts"]) for k in ("data", "shm")}
        c["faults"] = [f for f in c.get("faults", []) if f.get("proc") is None or f["proc"] in valid]
        if J.feasible(c["job"], cp):
            yield c
    for i in range(len(plan.get("faults") or [])):
        c = copy.deepcopy(plan)
        del c["faults"][i]
        yield c
    if plan.get("slow"):
        c = copy.deepcopy(plan)
        c["slow"] = []
        yield c
    n = plan["net"]
    for key, val in (("drop", 0), ("dup", 0), ("lat_hi", 50_000)):
        if n.get(key) != val:
            c = copy.deepcopy(plan)
            c["net"][key] = val
            yield c
    for ti, t in enumerate(plan["job"]["tasks"]):
        if t.get("work_ms"):
            c = copy.deepcopy(plan)
            c["job"]["tasks"][ti]["work_ms"] = 0
            yield c


def sample(plan):
    if "graph" in plan:
        return plan
    return dict(tasks=[(t["name"], t["nout"], [tuple(e) for e in t["inputs"]]) for t in plan["job"]["tasks"]][:8], ext=plan["job"]["ext"],
                cluster=plan["cluster"], net=plan["net"], faults=plan.get("faults"))
