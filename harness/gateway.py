"""`gateway` harness (C18): the real `gateway.server.serve`, frontends using the real `client.request_response`,
simulated controllers using the real `controller.report.Reporter` (one Reporter per report, i.e. one link per report,
so reports can overtake each other); the network reorders, duplicates and delays reports."""
import base64
import collections
import copy

from sim import fakes
from sim.kernel import Kernel, SimKilled, SimProc

NAME = "gateway"
URL = "tcp://gw:1"


def gen_plan(rng, opts=None):
    o = dict(reorder=True, dup=True)
    o.update(opts or {})
    njobs = rng.randint(1, 4)
    jobs = []
    for j in range(njobs):
        reps = []
        prog = 0
        for _ in range(rng.randint(1, 8)):
            r = rng.random()
            if r < 0.6:
                prog = min(100, prog + rng.randint(1, 40))
                reps.append(["progress", prog, rng.choice([0, 0, 1, 20])])
            else:
                reps.append(["result", f"t{rng.randrange(3)}", rng.randrange(2), rng.randint(1, 40), rng.choice([0, 0, 5])])
        if rng.random() < 0.8:
            reps.append(["shutdown", rng.choice([0, 0, 50])])
            if rng.random() < 0.3:
                # reports that are sent before the shutdown notice but arrive after it are produced by the latency window
                pass
        jobs.append(dict(reports=reps, start_delay=rng.choice([0, 1, 10])))
    nfe = rng.randint(1, 3)
    fes = []
    for f in range(nfe):
        qs = []
        for _ in range(rng.randint(2, 10)):
            r = rng.random()
            if r < 0.45:
                qs.append(["progress", sorted(rng.sample(range(njobs), rng.randint(0, njobs))), rng.choice([0, 1, 5, 30])])
            elif r < 0.55:
                qs.append(["progress_unknown", rng.choice([0, 5])])
            elif r < 0.85:
                qs.append(["result", rng.randrange(njobs), f"t{rng.randrange(3)}", rng.randrange(2), rng.choice([0, 1, 5, 30])])
            elif r < 0.92:
                qs.append(["result_unknown_job", rng.choice([0, 5])])
            else:
                qs.append(["result", rng.randrange(njobs), "nope", 0, rng.choice([0, 5])])
        fes.append(qs)
    if o.get("short_timeouts"):
        # impatient frontends: some requests are abandoned before the (slow) gateway answers
        for qs in fes:
            for q in qs:
                q.insert(-1, rng.choice([5000, 5000, 1, 3, 10]))
    lat_hi = rng.choice([50_000, 2_000_000, 40_000_000, 200_000_000]) if o["reorder"] else 50_000
    # a gateway that is busy / descheduled for a while (at its n-th seam): reports and requests pile up in its sockets meanwhile
    stalls = [[rng.randint(5, 120), rng.choice([5, 50, 400])] for _ in range(rng.choice([0, 0, 1, 2]))]
    return dict(gw_stall=stalls, jobs=jobs, fes=fes, lat_hi=lat_hi, timeouts=bool(o.get("short_timeouts")), dup=rng.choice([0, 0, 20, 50]) if o["dup"] else 0, uuid_collide=rng.random() < 0.3,
                submit_by=[rng.randrange(nfe) for _ in range(njobs)])


def run(plan, ch, want_log=False):
    import cascade.gateway.api as api
    import cascade.gateway.client as gclient
    import cascade.gateway.server as gserver
    from cascade.controller.report import JobProgressShutdown, JobProgressStarted, Reporter, deserialize
    from cascade.gateway.client import parse_request
    from cascade.low.core import DatasetId
    import orjson
    K = Kernel(ch, max_steps=200_000, max_time_ns=600 * 10**9)
    if want_log:
        K.tracelog = []
    job_addrs = set()

    def faultable(frames, addr):
        return fakes.Net.norm(addr) in job_addrs
    fakes.new_world(K, dict(lat=(min(20_000, plan["lat_hi"]) if plan["lat_hi"] > 50_000 else plan["lat_hi"], plan["lat_hi"]), faultable=faultable,
                            drop_pct=0, dup_pct=plan["dup"]))
    if plan.get("uuid_collide"):
        st = {"n": 0}

        def force(kernel):
            st["n"] += 1
            if st["n"] % 2 == 1:
                kernel.probe("uuid_collision_forced") if st["n"] > 1 else None
                return 0x1234 << 64
            return None
        K.cfg["uuid_force"] = force
    viol = []
    pairs = []            # (seq, request bytes, response bytes) in the order the gateway handled them
    submitted = {}        # job index -> job id
    spawned = {}          # job id -> report address
    controllers_done = []
    fe_done = []
    orig_hf = gserver.handle_fe

    def hf(socket, jobs):
        n0 = len(K.net.recvlog)
        cap = {}
        orig_send = socket.send

        def send(b, *a, **k):
            cap["resp"] = b
            return orig_send(b, *a, **k)
        socket.send = send
        try:
            return orig_hf(socket, jobs)
        finally:
            socket.send = orig_send
            mine = [e for e in K.net.recvlog[n0:] if e[1] == URL]
            pairs.append((mine[0][0] if mine else None, mine[0][2][0] if mine else None, cap.get("resp")))
    gserver.handle_fe = hf

    def on_popen(cmd, env):
        # what the gateway would have started: python -m cascade.benchmarks local ... --report_address addr,job_id
        try:
            ra = cmd[cmd.index("--report_address") + 1]
        except ValueError:
            viol.append(("C18", "spawn_without_report_address", cmd))
            return
        addr, jid = ra.split(",", 1)
        spawned[jid] = addr
        job_addrs.add(fakes.Net.norm(addr))
        if any(not isinstance(c, (str, bytes)) for c in cmd):
            K.probe("popen_argument_not_a_string")
    K.handlers["popen"].append(on_popen)
    stalls = [list(x) + [False] for x in plan.get("gw_stall", [])]

    def seam_hook(thread, kind, args):
        p = thread.proc
        if p.name != "gw":
            return
        for st_ in stalls:
            if not st_[2] and p.nseam >= st_[0]:
                st_[2] = True
                K.stall(p, st_[1] * 1_000_000)
    if stalls:
        K.seam_hooks.append(seam_hook)
    delivered = collections.defaultdict(list)        # report address -> frames in the order the network handed them to the gateway's socket
    orig_deliver = K.net._deliver

    def deliver(addr, frames):
        if addr in job_addrs:
            delivered[addr].append(frames)
        return orig_deliver(addr, frames)
    K.net._deliver = deliver

    class St:  # the two fields Reporter.send_progress reads
        def __init__(self, pct):
            self.total, self.remaining = 10000, 10000 - pct * 100

    def controller(ji):
        K.block(lambda: ji in submitted, None, "wait_submit")
        jid = submitted[ji]
        addr = spawned.get(jid)
        if addr is None:
            return
        ra = f"{addr},{jid}"
        job = plan["jobs"][ji]
        if job["start_delay"]:
            K.sleep(job["start_delay"] * 1_000_000)
        for rep in job["reports"]:
            r = Reporter(ra)        # a fresh socket per report: no order between reports on the wire
            if rep[0] == "progress":
                r.send_progress(St(rep[1]))
            elif rep[0] == "result":
                r.send_result(DatasetId(rep[1], str(rep[2])), bytes((rep[3] + i + ji) & 0xFF for i in range(rep[3])))
            else:
                r.shutdown()
            if rep[-1]:
                K.sleep(rep[-1] * 1_000_000)
        controllers_done.append(ji)

    uploads = collections.defaultdict(set)     # (job index, dataset repr) -> every byte string that job ever uploads for it
    for ji, job in enumerate(plan["jobs"]):
        for rep in job["reports"]:
            if rep[0] == "result":
                uploads[(ji, f"{rep[1]}.{rep[2]}")].add(bytes((rep[3] + i + ji) & 0xFF for i in range(rep[3])))

    def rr(m, timeout_ms=5000):
        """Client-side oracle: whatever request_response hands back must be the answer to THIS request."""
        try:
            resp = gclient.request_response(m, URL, timeout_ms=timeout_ms)
        except ValueError as e:
            if "TimeoutError" in str(e) or "Timeout" in str(e):
                K.probe("client_timeout")
                return None
            raise
        if isinstance(m, api.JobProgressRequest) and m.job_ids and not resp.error:
            if set(resp.progresses) != set(m.job_ids):
                viol.append(("C18", "progress_answer_for_other_jobs", (sorted(m.job_ids), sorted(resp.progresses))))
        elif isinstance(m, api.ResultRetrievalRequest) and resp.result is not None:
            ji = next((j for j, jid in submitted.items() if jid == m.job_id), None)
            got = base64.b64decode(resp.result)
            if got not in uploads.get((ji, repr(m.dataset_id)), set()):
                viol.append(("C18", "result_answer_for_other_request", (m.job_id, repr(m.dataset_id), len(got))))
        return resp

    def frontend(fi):
        for ji, by in enumerate(plan["submit_by"]):
            if by == fi:
                resp = rr(api.SubmitJobRequest(job=api.JobSpec(benchmark_name="b", envvars={}, job_instance=None, workers_per_host=1, hosts=1, use_slurm=False)), 60000)
                if resp is None or resp.error or not resp.job_id:
                    viol.append(("C18", "submit_failed", getattr(resp, "error", "timeout")))
                    submitted[ji] = None
                else:
                    if resp.job_id in [v for v in submitted.values()]:
                        viol.append(("C18", "job_id_reused", resp.job_id))
                    submitted[ji] = resp.job_id
        for q in plan["fes"][fi]:
            to = q[-2] if plan.get("timeouts") else 5000
            try:
                if q[0] == "progress":
                    K.block(lambda: all(j in submitted for j in q[1]), None, "wait_ids")
                    rr(api.JobProgressRequest(job_ids=[submitted[j] for j in q[1] if submitted[j]]), to)
                elif q[0] == "progress_unknown":
                    rr(api.JobProgressRequest(job_ids=["no-such-job"]), to)
                elif q[0] == "result":
                    K.block(lambda: q[1] in submitted, None, "wait_ids")
                    if submitted[q[1]]:
                        rr(api.ResultRetrievalRequest(job_id=submitted[q[1]], dataset_id=DatasetId(q[2], str(q[3]))), to)
                elif q[0] == "result_unknown_job":
                    rr(api.ResultRetrievalRequest(job_id="no-such-job", dataset_id=DatasetId("t0", "0")), to)
            except ValueError as e:
                viol.append(("C18", "request_failed", (q, str(e)[:100])))
            if q[-1]:
                K.sleep(q[-1] * 1_000_000)
        fe_done.append(fi)
        if len(fe_done) == len(plan["fes"]):
            K.block(lambda: len(controllers_done) == len(plan["jobs"]), 30 * 10**9, "wait_controllers")
            K.sleep(1_000_000_000)       # let late reports land, then ask once more for everything (final state)
            try:
                rr(api.JobProgressRequest(job_ids=[]))
                for ji, job in enumerate(plan["jobs"]):
                    for rep in job["reports"]:
                        if rep[0] == "result" and submitted.get(ji):
                            rr(api.ResultRetrievalRequest(job_id=submitted[ji], dataset_id=DatasetId(rep[1], str(rep[2]))))
                rr(api.ShutdownRequest())
            except ValueError as e:
                viol.append(("C18", "request_failed", ("final", str(e)[:100])))

    SimProc(K, "gw", toplevel=True).start(lambda: gserver.serve(URL))
    for fi in range(len(plan["fes"])):
        SimProc(K, f"fe{fi}", toplevel=True).start(lambda fi=fi: frontend(fi))
    for ji in range(len(plan["jobs"])):
        SimProc(K, f"ctl{ji}", toplevel=True).start(lambda ji=ji: controller(ji))
    try:
        end = K.run(wall_timeout=120)
    finally:
        gserver.handle_fe = orig_hf

    # ------------- sequential model replayed in the order the gateway thread actually received things
    model = {}            # job id -> dict(progress, ts, results)
    ooo = 0
    req_by_seq = {p[0]: p for p in pairs if p[0] is not None}
    answered = 0
    for seq, addr, frames in K.net.recvlog:
        if addr == URL:
            p = req_by_seq.get(seq)
            if p is None or p[2] is None:
                continue
            try:
                req = parse_request(p[1])
            except Exception:
                continue
            rd = orjson.loads(p[2])
            clazz = rd.pop("clazz", None)
            answered += 1
            if isinstance(req, api.SubmitJobRequest):
                jid = rd.get("job_id")
                if jid in model:
                    viol.append(("C18", "job_id_reused", jid))
                if jid:
                    model[jid] = dict(progress=JobProgressStarted, ts=-1, results={})
            elif isinstance(req, api.JobProgressRequest):
                ids = req.job_ids or list(model)
                if any(j not in model for j in ids):
                    if not rd.get("error"):
                        viol.append(("C18", "unknown_job_no_error", (ids, rd)))
                else:
                    want = {j: model[j]["progress"] for j in ids}
                    if rd.get("error"):
                        viol.append(("C18", "error_for_known_jobs", (ids, rd.get("error"))))
                    elif rd.get("progresses") != want:
                        stale = any(_pct(rd["progresses"].get(j)) < _pct(want[j]) for j in ids if j in rd.get("progresses", {}))
                        viol.append(("C18", "older_report_overwrote_newer" if stale else "progress_differs_from_newest_report", (rd.get("progresses"), want)))
            elif isinstance(req, api.ResultRetrievalRequest):
                known = req.job_id in model and req.dataset_id in model[req.job_id]["results"]
                if not known:
                    if not rd.get("error") or rd.get("result") is not None:
                        viol.append(("C18", "unknown_result_no_error", (req.job_id, repr(req.dataset_id), rd)))
                else:
                    want = model[req.job_id]["results"][req.dataset_id]
                    if rd.get("error") or rd.get("result") is None:
                        viol.append(("C18", "known_result_not_returned", (req.job_id, repr(req.dataset_id), rd.get("error"))))
                    elif base64.b64decode(rd["result"]) != want:
                        viol.append(("C18", "result_differs_from_upload", (req.job_id, repr(req.dataset_id), len(want))))
        elif addr in job_addrs:
            rep = deserialize(frames[0])
            m = model.get(rep.job_id)
            if m is None:
                continue
            if rep.current_status is not None and rep.current_status != JobProgressShutdown:
                if rep.timestamp > m["ts"]:
                    m["progress"], m["ts"] = rep.current_status, rep.timestamp
                elif rep.timestamp < m["ts"]:
                    ooo += 1
            for ds, val in rep.results:
                m["results"][ds] = val
    # ------------- nothing that reached a job's report socket is lost inside the gateway: what it processed is what was
    # delivered, in that order, at least up to the job's shutdown notice (after which the socket is no longer polled)
    if end == "quiescent":
        def jid_of(fr):
            try:
                return deserialize(fr[0]).job_id
            except Exception:
                return None
        for addr, dl_all in delivered.items():
            got_all = [fr for seq, a, fr in K.net.recvlog if a == addr]
            # per job (a report names its job; several jobs may share one report address): everything delivered for the job up to
            # and including its own shutdown notice must have been read, in that order
            for jid in sorted({jid_of(fr) for fr in dl_all} - {None}):
                dl = [fr for fr in dl_all if jid_of(fr) == jid]
                got = [fr for fr in got_all if jid_of(fr) == jid]
                upto = len(dl)
                for i, fr in enumerate(dl):
                    try:
                        if deserialize(fr[0]).current_status == JobProgressShutdown:
                            upto = i + 1
                            break
                    except Exception:
                        pass
                if got != dl[:len(got)] or len(got) < upto:
                    viol.append(("C18", "report_delivered_to_gateway_never_processed", dict(addr=addr, job=jid, delivered=len(dl), processed=len(got), must=upto)))
    for n_, e, tb in K.crashes:
        viol.append(("C18", "gateway_or_client_crashed", (n_, e)))
    if end != "quiescent":
        viol.append(("C18", "gateway_stopped_serving", end))
    if ooo:
        K.probe("report_delivered_out_of_timestamp_order", ooo)
    seen = set()
    out = []
    for p, c, d in viol:
        if (p, c) not in seen:
            seen.add((p, c))
            out.append(dict(prop=p, cls=c, detail=repr(d)[:400], sig={}))
    res = dict(harness=NAME, viol=out, probes=dict(K.probes), fired=dict(K.fired), digest=K.digest(), steps=K.steps, simtime=(K.now - K.t0) / 1e9,
               stats=dict(jobs=len(plan["jobs"]), requests_answered=answered, reports=sum(len(j["reports"]) for j in plan["jobs"]), dup=K.net.stats["dup"]),
               nontrivial=dict(C18=ooo > 0 or K.net.stats["dup"] > 0), end=end, verdict="ok")
    if want_log:
        res["log"] = K.tracelog
        res["crashes"] = [(a, b, c[-600:]) for a, b, c in K.crashes]
    return res


def _pct(s):
    try:
        return float(s)
    except (TypeError, ValueError):
        return -1.0


def shrink_candidates(plan):
    for ji in range(len(plan["jobs"]) - 1, -1, -1):
        if len(plan["jobs"]) > 1:
            c = copy.deepcopy(plan)
            del c["jobs"][ji]
            del c["submit_by"][ji]
            for qs in c["fes"]:
                for q in qs:
                    if q[0] == "progress":
                        q[1] = [j - (j > ji) for j in q[1] if j != ji]
                    elif q[0] == "result":
                        q[1] = q[1] - (q[1] > ji) if q[1] != ji else 0
            yield c
    for ji, job in enumerate(plan["jobs"]):
        for ri in range(len(job["reports"]) - 1, -1, -1):
            c = copy.deepcopy(plan)
            del c["jobs"][ji]["reports"][ri]
            yield c
    for fi in range(len(plan["fes"]) - 1, -1, -1):
        if len(plan["fes"]) > 1 and fi not in plan["submit_by"]:
            c = copy.deepcopy(plan)
            del c["fes"][fi]
            c["submit_by"] = [b - (b > fi) for b in c["submit_by"]]
            yield c
    for fi, qs in enumerate(plan["fes"]):
        for qi in range(len(qs) - 1, -1, -1):
            c = copy.deepcopy(plan)
            del c["fes"][fi][qi]
            yield c
    for key, val in (("dup", 0), ("uuid_collide", False), ("lat_hi", 50_000)):
        if plan.get(key) != val:
            c = copy.deepcopy(plan)
            c[key] = val
            yield c


def sample(plan):
    return plan
