"""`shmstore` harness (C08, C09): one real shm `LocalServer` (real Manager, Disk, lottery) and 1-4 client processes
running generated operation lists through the real `cascade.shm.client`; page-out / page-in jobs are kernel threads
with line-level pre-emption inside dataset.py / disk.py; disk and allocation faults are injected."""
import collections
import copy

from sim import fakes
from sim.kernel import Kernel, SimKilled, SimProc

NAME = "shmstore"
PORT = 7000


def gen_plan(rng, opts=None):
    o = dict(faults=False, stale=False, big=False, reuse=True)
    o.update(opts or {})
    if o["big"]:
        cap = rng.choice([4096, 10000, 20000, 65536])
    else:
        cap = rng.choice([4, 8, 16, 64, 256])
    nkeys = rng.randint(1, 6)
    nclients = rng.randint(1, 4)
    keys = [f"k{i}" for i in range(nkeys)]
    ops = []
    fracs = [0.2, 0.4, 0.5, 0.75, 1.0, 1.3] if not o["big"] else [0.1, 0.3, 0.45, 0.6, 1.0]
    for c in range(nclients):
        l = []
        for _ in range(rng.randint(3, 16)):
            r = rng.random()
            key = rng.choice(keys)
            if r < 0.33:
                size = max(1, int(cap * rng.choice(fracs)) + rng.choice([0, 0, 1, -1]))
                l.append(["write", key, size])
            elif r < 0.70:
                l.append(["read", key, rng.choice([0, 0, 1, 5, 40]) * 50])
            elif r < 0.80:
                l.append(["purge", key])
            elif r < 0.86:
                l.append(["free"])
            elif r < 0.88:
                l.append(["status", key])
            elif r < 0.93 and o["stale"]:
                l.append(["sleep", rng.choice([5, 16, 31]) * 60_000])
            elif r < 0.96 and o["stale"]:
                l.append(["read_leak", key])
            elif r < 0.98 and o["stale"]:
                l.append(["write_leak", key, max(1, int(cap * rng.choice([0.2, 0.5])))])
            else:
                l.append(["read", key, 0])
        ops.append(l)
    if not o["reuse"]:
        # the regime cascade itself uses: a key is written at most once and never allocated again after a purge
        n = 0
        written = []
        for l in ops:
            for op in l:
                if op[0] in ("write", "write_leak"):
                    op[1] = f"u{n}"
                    written.append(op[1])
                    n += 1
        for l in ops:
            for op in l:
                if op[0] in ("read", "read_leak", "purge", "status") and written:
                    op[1] = rng.choice(written)
        keys = written or keys
    faults = []
    if o["faults"]:
        for _ in range(rng.choice([1, 1, 2])):
            k = rng.choice(["write_eio", "write_enospc", "open_missing", "read_eio", "shm_enomem"])
            faults.append([k, rng.randint(1, 5)])
    devshm = None
    if rng.random() < 0.1 and cap >= 4:
        devshm = rng.randint(max(2, cap // 2), cap - 1)      # configured capacity exceeds what /dev/shm reports
    timed = []
    if rng.random() < 0.25:
        # a purge of the very dataset a disk job is working on, sent the moment the n-th such job starts
        timed = [[rng.choice(["_page_out", "_page_out", "_page_in"]), rng.randint(1, 3)] for _ in range(rng.choice([1, 1, 2]))]
    stalls = []
    if rng.random() < 0.2:
        # the server process is descheduled for a while at its n-th seam (answers are late, requests queue up)
        stalls = [[rng.randint(3, 150), rng.choice([300, 2500, 2500, 7000])] for _ in range(rng.choice([1, 1, 2]))]
    plan = dict(cap=cap, keys=keys, ops=ops, faults=faults, line=rng.random() < 0.7, reuse=o["reuse"], devshm=devshm, timed_purges=timed, stalls=stalls)
    if o.get("rtracker"):
        # client processes come and go: each has its own multiprocessing resource tracker, which unlinks whatever the process still
        # had registered when it exits (DESIGN section 12)
        plan["rtracker"] = True
    return plan


def _payload(key, ci, oi, size):
    head = f"{key}:{ci}:{oi}:".encode()
    return (head * (size // len(head) + 1))[:size]


class Mon:
    """Observes only externally visible events: requests/responses on the UDP seam, pool submissions, segment create/unlink."""

    def __init__(self, K, cap):
        import cascade.shm.api as api
        import cascade.shm.dataset as dataset
        self.api, self.dataset = api, dataset
        self.K, self.cap = K, cap
        self.shmid2key, self.key2shmid = {}, {}
        self.resident = {}                 # shmid -> size (being written, readable, being paged out, being paged in)
        self.sizes = {}                    # shmid -> size of the current incarnation
        self.writer_closed = set()         # keys whose writer's close was processed (current incarnation)
        self.readers = collections.defaultdict(dict)   # key -> rdid -> time granted
        self.viol = []
        self.jobs_alive = 0
        self.last_req = None
        self.manager = None
        self.faulty_keys = set()           # keys hit by an injected I/O fault: may disappear / fail, never show other bytes
        self.delayed_purge = set()
        self.leaked_writers = set()        # keys whose writer died before closing
        self.incarn = collections.Counter()  # shmid -> how many times the name was granted (the segment name is a function of the key)
        self.job_q = collections.defaultdict(list)   # (fn name, shmid) -> incarnations at submission, FIFO
        self.job_of_thread = {}            # pool thread name -> (fn name, shmid, incarnation at submission)
        self.stale_job_ran = False         # a disk job ran against a later incarnation than the one it was submitted for
        self.grant_by_port = {}            # client port of the granting allocate request -> (shmid, incarnation)
        self.purge_seg_present = None
        self.pending_close = collections.defaultdict(list)   # key -> [(shmid, incarnation)] of writer closes sent, in order
        self.stale_writer_closed = False   # a writer whose incarnation was purged (and the key re-allocated) sent its close callback
        self.pageouts_in_flight = {}

    def any_live_job_stale(self):
        return any(inc is not None and inc != self.incarn[sid] for (_, sid, inc) in self.job_of_thread.values())

    def v(self, prop, cls, detail, **sig):
        if self.any_live_job_stale():
            self.stale_job_ran = True
        sig.setdefault("stale_job_ran", self.stale_job_ran)
        sig.setdefault("stale_writer_closed", self.stale_writer_closed)
        self.viol.append((prop, cls, detail, sig))

    def free_model(self):
        return self.cap - sum(self.resident.values())

    def cur_readers(self, key):
        cur = self.incarn.get(self.key2shmid.get(key))
        return [r for r, (t, inc) in self.readers.get(key, {}).items() if inc == cur]

    def fresh_readers(self, key):
        """Readers of the CURRENT incarnation of the key that are younger than the staleness window.  (A reader of an earlier
        incarnation - one whose segment was already taken away from it, which was reported then - protects nothing any more.)"""
        cur = self.incarn.get(self.key2shmid.get(key))
        return [r for r, (t, inc) in self.readers.get(key, {}).items() if inc == cur and self.K.now - t <= self.dataset.STALE_READ]

    # --- UDP seam of the server
    def on_recv(self, sock, b, addr):
        if sock.port != PORT:
            return
        msg = self.api.deser(b)
        self.last_req = msg
        if isinstance(msg, self.api.PurgeRequest):
            self.purge_seg_present = self.key2shmid.get(msg.key) in self.K.segments
        if isinstance(msg, self.api.CloseCallback) and not msg.rdid and self.pending_close.get(msg.key):
            sid, inc = self.pending_close[msg.key].pop(0)
            if sid is not None and self.incarn.get(sid) != inc:
                # this writer's dataset was purged under it and the key granted again: its close callback carries only the key
                self.stale_writer_closed = True
                self.K.probe("close_of_purged_incarnation")
        if isinstance(msg, self.api.CloseCallback) and msg.rdid:
            # the client unmaps before it sends the callback: the read is over when the server receives it
            self.readers[msg.key].pop(msg.rdid, None)

    def on_send(self, sock, b, addr):
        if sock.port != PORT:
            return
        api, K = self.api, self.K
        resp, req = api.deser(b), self.last_req
        err = getattr(resp, "error", "")
        if isinstance(req, api.AllocateRequest):
            if isinstance(resp, api.AllocateResponse) and not err:
                fm = self.free_model()
                if req.l > self.cap:
                    self.v("C08", "granted_above_capacity", (req.key, req.l, self.cap))
                elif req.l > fm:
                    self.v("C08", "granted_without_space", (req.key, req.l, fm, dict(self.resident)))
                self.shmid2key[resp.shmid] = req.key
                self.key2shmid[req.key] = resp.shmid
                self.incarn[resp.shmid] += 1
                self.grant_by_port[addr[1]] = (resp.shmid, self.incarn[resp.shmid])
                self.resident[resp.shmid] = req.l
                self.sizes[resp.shmid] = req.l
                self.writer_closed.discard(req.key)
                self.delayed_purge.discard(req.key)      # a new incarnation: whatever was pending for the old one went with it
                K.probe("grant")
            elif err == "capacity exceeded":
                if req.l <= self.cap:
                    self.v("C08", "refused_although_fits_capacity", (req.key, req.l, self.cap))
                K.probe("capacity_exceeded")
            elif err == "wait":
                K.probe("alloc_wait")
                if req.l > self.cap:
                    self.v("C08", "oversize_request_not_refused", (req.key, req.l, self.cap))
        elif isinstance(req, api.CloseCallback):
            if isinstance(resp, api.OkResponse) and not err and not req.rdid:
                self.writer_closed.add(req.key)
            if req.rdid and req.key in self.delayed_purge and not self.cur_readers(req.key):
                # the purge that was issued during the read takes effect when the last reader closes
                self.delayed_purge.discard(req.key)
                sid = self.key2shmid.get(req.key)
                if sid in K.segments and not err:
                    self.v("C09", "delayed_purge_not_applied_at_last_close", (req.key, sid))
                else:
                    K.probe("delayed_purge_applied")
        elif isinstance(req, api.PurgeRequest):
            if self.cur_readers(req.key):
                self.delayed_purge.add(req.key)
                K.probe("delayed_purge")
                sid = self.key2shmid.get(req.key)
                if self.purge_seg_present and sid not in K.segments and self.fresh_readers(req.key):
                    self.v("C09", "purge_during_read_removed_segment", (req.key, sid))
            else:
                self.delayed_purge.discard(req.key)
        elif isinstance(req, api.GetRequest):
            if isinstance(resp, api.GetResponse) and not err:
                if req.key not in self.writer_closed:
                    self.v("C09", "readable_before_writer_closed", req.key, writer_died=req.key in self.leaked_writers)
                self.readers[req.key][resp.rdid] = (K.now, self.incarn.get(self.key2shmid.get(req.key)))
                K.probe("get_granted")
            elif err == "wait":
                K.probe("get_wait")
        elif isinstance(req, api.FreeSpaceRequest) and isinstance(resp, api.FreeSpaceResponse):
            self.check_free(resp.free_space, "FreeSpaceResponse")
            K.probe("free_query")
        # after every server step: the manager's own figure
        if self.manager is not None:
            self.check_free(self.manager.free_space, "Manager.free_space")
            if self.jobs_alive == 0:
                # ... and, at rest, the store's own idea of what is resident: every dataset it considers to be in shared memory
                # (being written, readable, being paged out or in) is covered by the space it has deducted
                DS = self.dataset.DatasetStatus
                by_status = sum(d.size for d in list(self.manager.datasets.values()) if d.status != DS.on_disk)
                if by_status + self.manager.free_space > self.cap:
                    self.v("C08", "resident_datasets_exceed_deducted_space", (by_status, self.manager.free_space, self.cap,
                                                                             {k: d.status.name for k, d in list(self.manager.datasets.items())}),
                           failed_pagein_without_segment=self.K.probes.get("pagein_left_no_segment", 0) > 0, enomem=self.K.fired.get("shm_enomem", 0) > 0)

    def check_free(self, reported, where):
        fm = self.free_model()
        if reported > fm:
            self.v("C08", "reports_more_free_than_true", (where, reported, fm, dict(self.resident)))
        elif reported < fm and self.jobs_alive == 0:
            self.v("C08", "reports_less_free_at_rest", (where, reported, fm, dict(self.resident)),
                   failed_pagein_without_segment=self.K.probes.get("pagein_left_no_segment", 0) > 0, enomem=self.K.fired.get("shm_enomem", 0) > 0)

    # --- disk pool
    def on_job_start(self, pool, fn, args):
        name = getattr(fn, "__name__", "")
        q = self.job_q.get((name, args[0]))
        inc = q.pop(0) if q else None
        self.job_of_thread[self.K.cur().name] = (name, args[0], inc)
        if inc is not None and inc != self.incarn[args[0]]:
            self.stale_job_ran = True
            self.K.probe("disk_job_outlived_its_incarnation")

    def cur_job_is_stale(self):
        c = self.K.cur()
        j = self.job_of_thread.get(c.name) if c is not None else None
        return bool(j and j[2] is not None and j[2] != self.incarn[j[1]])

    def on_submit(self, pool, fn, args):
        name = getattr(fn, "__name__", "")
        self.jobs_alive += 1
        self.job_q[(name, args[0])].append(self.incarn[args[0]])
        if name == "_page_out":
            key = self.shmid2key.get(args[0])
            self.K.probe("pageout_submitted")
            if self.fresh_readers(key):
                self.v("C09", "pageout_while_fresh_reader", (key, dict(self.readers[key])))
        elif name == "_page_in":
            self.resident[args[0]] = args[1]
            self.K.probe("pagein_submitted")

    def on_job_end(self, pool, fn, args):
        self.jobs_alive -= 1
        if self.cur_job_is_stale():
            # it was submitted for an earlier incarnation of the key than the one that exists now: whatever it did, it did to the new one
            if not self.stale_job_ran:
                self.K.probe("disk_job_outlived_its_incarnation")
            self.stale_job_ran = True
        self.job_of_thread.pop(self.K.cur().name, None)
        name = getattr(fn, "__name__", "")
        if name == "_page_out":
            self.K.probe("pageout_finished")
        elif name == "_page_in":
            self.K.probe("pagein_finished")
            if args[0] not in self.K.segments:
                # the page-in failed before or without leaving a segment: nothing of it is resident any more
                self.resident.pop(args[0], None)
                self.K.probe("pagein_left_no_segment")

    def on_unlink(self, shmid):
        key = self.shmid2key.get(shmid)
        if self.cur_job_is_stale():
            self.stale_job_ran = True
        if self.fresh_readers(key):
            self.v("C09", "unlinked_while_fresh_reader", (key, dict(self.readers[key])), stale_job=self.cur_job_is_stale())
        self.resident.pop(shmid, None)
        self.K.probe("unlink")

    def on_step(self):
        tot = fakes.segments_total()
        if tot > self.cap:
            self.v("C08", "segments_exceed_capacity", (tot, self.cap, dict(self.K.seg_virtual)))


def _line_tracer(frame, event, arg):
    fn = frame.f_code.co_filename
    if not (fn.endswith("shm/dataset.py") or fn.endswith("shm/disk.py")):
        return None

    def local(frame, event, arg):
        if event == "line":
            fakes.K.step("line", frame.f_lineno)
        return local
    return local


def run(plan, ch, want_log=False):
    import cascade.shm.client as client
    import cascade.shm.dataset as dataset
    import cascade.shm.server as server
    K = Kernel(ch, max_steps=600_000, max_time_ns=12 * 3600 * 10**9)
    if want_log:
        K.tracelog = []
    fakes.new_world(K, dict(lat=(1000, 2000)))
    cap = plan["cap"]
    if plan.get("devshm"):
        K.cfg["devshm"] = plan["devshm"]
        cap_eff = min(cap, plan["devshm"])        # "if more capacity is configured than available, it is trimmed"
        K.probe("capacity_trimmed_to_available")
    else:
        cap_eff = cap
    mon = Mon(K, cap_eff)
    if plan.get("rtracker"):
        K.cfg["rtracker"] = True
        K.handlers["proc_exit"].append(fakes.rt_flush)
    if plan.get("line"):
        K.cfg["pool_trace_fn"] = _line_tracer
    ncreate = {"n": 0}

    def count_creates(name, size):
        if K.cur().proc.name == "shm" and ".pool" in K.cur().name:
            ncreate["n"] += 1
        return False
    K.cfg["shm_enomem"] = count_creates
    for kind, n in plan.get("faults") or []:
        if kind == "write_eio":
            K.fs.plan[("write", n)] = "eio"
        elif kind == "write_enospc":
            K.fs.plan[("write", n)] = "enospc"
        elif kind == "write_short":
            K.fs.plan[("write", n)] = "short"
        elif kind == "open_missing":
            K.fs.plan[("open_r", n)] = "missing"
        elif kind == "read_eio":
            K.fs.plan[("read", n)] = "eio"
        elif kind == "shm_enomem":
            target = n

            def enomem(name, size, target=target):
                # only the server's own page-in creations (clients creating a granted segment is the other party)
                if K.cur().proc.name != "shm" or ".pool" not in K.cur().name:
                    return False
                ncreate["n"] += 1
                if ncreate["n"] == target:
                    # the page-in's segment is never created: from here on nothing of it is resident (the store learns that in the
                    # failure callback, which runs before the job has ended)
                    mon.resident.pop(name, None)
                    K.probe("pagein_left_no_segment")
                    return True
                return False
            K.cfg["shm_enomem"] = enomem
    K.handlers["udp_recvfrom"].append(mon.on_recv)
    K.handlers["udp_sendto"].append(mon.on_send)
    K.handlers["pool_submit"].append(mon.on_submit)
    K.handlers["pool_job_end"].append(mon.on_job_end)
    K.handlers["pool_job_start"].append(mon.on_job_start)
    K.handlers["shm_unlink"].append(mon.on_unlink)
    K.on_step.append(mon.on_step)
    orig_minit = dataset.Manager.__init__

    def minit(self_, *a, **kw):
        orig_minit(self_, *a, **kw)
        mon.manager = self_
    dataset.Manager.__init__ = minit

    root = SimProc(K, "host", toplevel=True)
    root.env["CASCADE_SHM_PORT"] = str(PORT)
    incarnations = collections.defaultdict(list)   # key -> [bytes written and closed]
    pending_bytes = {}
    results = collections.Counter()
    done = []
    leaked_read_keys, leaked_write_keys = set(), set()
    purged_in_plan = {op[1] for l in plan["ops"] for op in l if op[0] == "purge"}
    never_purged = set(plan["keys"]) - purged_in_plan
    closed_ok = set()

    cap = cap_eff

    def srv():
        server.entrypoint(PORT, plan["cap"], None, "s")

    def api_call(fn, *a, **kw):
        """Any exception leaving the client API other than the documented ones is a violation."""
        try:
            return fn(*a, **kw), None
        except (TimeoutError, client.ConflictError) as e:
            return None, e
        except ValueError as e:
            return None, e
        except SimKilled:
            raise
        except BaseException as e:  # noqa
            mon.v("C09", "client_api_raised", (getattr(fn, "__name__", "?"), a[:1], repr(e)[:120]), exc=type(e).__name__)
            return None, e

    def cli(ci, ops):
        client.ensure()
        for oi, op in enumerate(ops):
            kind = op[0]
            if kind in ("write", "write_leak"):
                _, key, size = op
                buf, err = api_call(client.allocate, key, size, f"d{key}", timeout_sec=2.0)
                if buf is None:
                    results["alloc_" + type(err).__name__] += 1
                    continue
                data = _payload(key, ci, oi, size)
                my_sid, my_inc = mon.grant_by_port.get(getattr(K.cur(), "last_udp_port", None), (None, None))
                try:
                    buf.view()[:size] = data
                except (ValueError, TypeError) as e:
                    mon.v("C09", "granted_segment_unusable", (key, size, repr(e)[:80]))
                if kind == "write_leak":
                    leaked_write_keys.add(key)
                    mon.leaked_writers.add(key)
                    incarnations[key].append(data)
                    results["write_leaked"] += 1
                    K.fire("client_dies_holding_write")
                    continue
                # completely written now: a reader may be granted as soon as the server has processed the close,
                # i.e. before this thread runs again
                incarnations[key].append(data)
                # which incarnation this writer is about to close: judged when the server handles the callback (requests that
                # were sent earlier - a purge, another allocate - are handled first); no seam between here and the send
                mon.pending_close[key].append((my_sid, my_inc))
                try:
                    buf.close()
                    results["written"] += 1
                    closed_ok.add(key)
                except ValueError:
                    results["writer_close_err"] += 1     # e.g. the key was purged meanwhile
            elif kind in ("read", "read_leak"):
                key = op[1]
                # judged on what was true BEFORE the request left: a close that the server handles after this get is no
                # reason for the get to succeed (false alarm of check request 3, seed 1 noreuse #599)
                was_closed = key in closed_ok
                buf, err = api_call(client.get, key, timeout_sec=2.0)
                if buf is None:
                    results["get_" + type(err).__name__] += 1
                    if isinstance(err, ValueError) and not isinstance(err, TimeoutError) and key in never_purged and was_closed \
                            and not plan.get("faults") and key not in leaked_write_keys:
                        # written, closed, never purged, no fault injected: the store has no reason to refuse it
                        mon.v("C09", "get_failed_for_live_dataset", (key, str(err)[:100]))
                    continue
                got = bytes(buf.view())
                if not incarnations[key]:
                    mon.v("C09", "read_of_never_completed_write", (key, len(got)))
                elif got not in incarnations[key]:
                    if key in mon.faulty_keys and False:
                        pass
                    mon.v("C09", "bytes_differ", (key, len(got), got[:12], [(len(b), b[:12]) for b in incarnations[key]][-2:]),
                          faulty=key in mon.faulty_keys, short=any(got == b[:len(got)] or len(got) == len(b) for b in incarnations[key]))
                results["read_ok"] += 1
                if kind == "read_leak":
                    leaked_read_keys.add(key)
                    K.fire("client_dies_holding_read")
                    continue
                if op[2]:
                    K.sleep(op[2] * 1_000_000)
                try:
                    buf.close()
                except ValueError:
                    results["reader_close_err"] += 1
            elif kind == "purge":
                _, err = api_call(client.purge, op[1])
                results["purge" if err is None else "purge_err"] += 1
            elif kind == "free":
                api_call(client.get_free_space)
            elif kind == "status":
                was_closed = op[1] in closed_ok
                st, err = api_call(client.status, op[1])
                results["status" if err is None else "status_err"] += 1
                if err is not None:
                    mon.v("C09", "status_request_failed", (op[1], repr(err)[:100]))
                elif was_closed and op[1] in never_purged and not plan.get("faults") and st != mon.api.DatasetStatus.ready:
                    mon.v("C09", "status_of_live_dataset_not_ready", (op[1], repr(st)))
            elif kind == "sleep":
                K.sleep(op[1] * 1_000_000)
                K.fire("clock_advance_past_staleness") if op[1] >= 16 * 60_000 else None
        done.append(ci)
        if len(done) == len(plan["ops"]):
            _drain()

    trig = dict(alive=0, n=0, seen=collections.Counter(), armed=[list(t) for t in plan.get("timed_purges", [])])

    def on_job_start_trigger(pool, fn, args):
        name = getattr(fn, "__name__", "")
        trig["seen"][name] += 1
        for t in trig["armed"]:
            if t[0] == name and t[1] == trig["seen"][name] and done is not None and len(done) < len(plan["ops"]):
                key = mon.shmid2key.get(args[0])
                if key is None:
                    continue
                never_purged.discard(key)
                trig["alive"] += 1
                trig["n"] += 1
                K.fire("purge_timed_into_disk_job")

                def go(key=key):
                    try:
                        client.ensure()
                        api_call(client.purge, key)
                    finally:
                        trig["alive"] -= 1
                SimProc(K, f"trig{trig['n']}", root).start(go)
    K.handlers["pool_job_start"].append(on_job_start_trigger)
    stalls = [list(x) + [False] for x in plan.get("stalls", [])]

    def stall_hook(thread, kind, args):
        p = thread.proc
        if p.name != "shm" or thread is not p.main:
            return
        for st_ in stalls:
            if not st_[2] and p.nseam >= st_[0] and len(done) < len(plan["ops"]):
                st_[2] = True
                K.stall(p, st_[1] * 1_000_000)
    if stalls:
        K.seam_hooks.append(stall_hook)

    def _drain():
        # drain phase: every handle is closed (or its holder is dead), faults have stopped; advance past the staleness windows;
        # then a request for everything that can still be evicted must be granted by the real client's own wait loop
        K.block(lambda: trig["alive"] == 0, None, "wait_triggers")
        K.fs.plan.clear()
        K.cfg.pop("shm_enomem", None)
        K.sleep(int(16 * 60 * 1e9))
        api_call(client.get_free_space)
        # every dataset that was completely written and never purged is still reachable, however often it was paged out
        # (fault-free plans only; a key with a dead writer or a leaked reader is excluded)
        if not plan.get("faults"):
            for key in sorted(never_purged & closed_ok - leaked_write_keys - leaked_read_keys):
                buf, err = api_call(client.get, key, timeout_sec=60.0)
                if buf is None:
                    mon.v("C09", "dataset_unreachable", (key, repr(err)[:80]))
                else:
                    got = bytes(buf.view())
                    if got not in incarnations[key]:
                        mon.v("C09", "bytes_differ", (key, len(got), got[:12], [(len(b), b[:12]) for b in incarnations[key]][-2:]), final_audit=True)
                    try:
                        buf.close()
                    except ValueError:
                        pass
                    K.probe("final_audit_read")
        mgr = mon.manager
        stuck = 0
        if mgr is not None:
            # datasets an injected fault (or a dead page-in) made unevictable are excluded from the demand, narrowly
            for key, ds in mgr.datasets.items():
                if ds.status == dataset.DatasetStatus.paging_out and mon.jobs_alive == 0 and ds.ongoing_reads:
                    stuck += ds.size
                elif ds.status == dataset.DatasetStatus.paged_in and mon.jobs_alive == 0 and ds.ongoing_reads and ds.delayed_purge:
                    # the mirror image: a FAILED page-in of a dataset a dead reader still "holds" - the purge that the failure
                    # callback asks for is delayed until that reader closes, i.e. for ever; not idle, not evictable
                    stuck += ds.size
                    K.probe("failed_pagein_held_by_dead_reader")
        want = cap - stuck
        if want > 0:
            buf, err = api_call(client.allocate, "__probe__", want, "d", timeout_sec=60.0)
            if buf is not None:
                results["probe_granted"] += 1
                try:
                    buf.close()
                except ValueError:
                    pass
                K.probe("liveness_probe_granted")
            elif isinstance(err, TimeoutError):
                mon.v("C09", "satisfiable_request_never_granted",
                      dict(cap=cap, want=want, stuck=stuck, resident={mon.shmid2key.get(s): z for s, z in mon.resident.items()},
                           statuses={k: d.status.name for k, d in (mgr.datasets.items() if mgr else [])},
                           lock=getattr(getattr(mgr, "pageout_all", None), "held", None)),
                      faulted=bool(K.fired), lock_held=bool(getattr(getattr(mgr, "pageout_all", None), "held", False)), stuck=stuck,
                      failed_pagein_without_segment=K.probes.get("pagein_left_no_segment", 0) > 0, enomem=K.fired.get("shm_enomem", 0) > 0)
            else:
                results["probe_err"] += 1
        if stuck:
            # e.g. a failed page-out of a dataset that a dead reader still "holds": neither idle nor evictable, so outside the
            # liveness clause; its accounting is C08's subject
            K.probe("dataset_stuck_in_transient_status")
        api_call(client.shutdown)

    shm_proc = SimProc(K, "shm", root)
    shm_proc.main = K.spawn("shm", srv, shm_proc, trace_fn=_line_tracer if plan.get("line") else None)
    for ci, ops in enumerate(plan["ops"]):
        SimProc(K, f"c{ci}", root).start(lambda ci=ci, ops=ops: cli(ci, ops))
    try:
        end = K.run(wall_timeout=240)
    finally:
        dataset.Manager.__init__ = orig_minit
    for name, err, tb in K.crashes:
        mon.viol.append(("HARNESS" if "/verif/" in tb.split("\n")[-3:][0] else "C09", "process_crash", (name, err, tb[-300:]), {}))
    if end not in ("quiescent",):
        mon.viol.append(("C09", "store_did_not_quiesce", end, {}))
    if K.segments and end == "quiescent":
        mon.viol.append(("C09", "segments_left_after_shutdown", sorted(K.segments), {}))
    viol = []
    seen = set()
    for p, c, d, s in mon.viol:
        if (p, c) in seen:
            continue
        seen.add((p, c))
        viol.append(dict(prop=p, cls=c, detail=repr(d)[:500], sig=s))
    pr = K.probes
    res = dict(harness=NAME, viol=viol, probes=dict(pr), fired=dict(K.fired), digest=K.digest(), steps=K.steps, simtime=(K.now - K.t0) / 1e9,
               stats=dict(ops=sum(len(o) for o in plan["ops"]), clients=len(plan["ops"]), **{k: v for k, v in results.items()}),
               nontrivial=dict(C08=pr.get("pageout_finished", 0) > 0, C09=pr.get("pagein_finished", 0) > 0 or pr.get("delayed_purge", 0) > 0),
               end=end, verdict="ok", fault_points=dict(writes=K.fs.nwrite, opens=K.fs.nopen_r, reads=K.fs.nread, creates=ncreate["n"]))
    if want_log:
        res["log"] = K.tracelog
        res["results"] = dict(results)
        res["crashes"] = [(a, b, c[-800:]) for a, b, c in K.crashes]
    return res


def expand(plan, res, rng, cap, kinds):
    """Single-fault enumeration along the recorded schedule of a fault-free base run: every disk write, every file open for
    reading, every read and every segment creation by a disk thread fails once (each in its own run, identical prefix)."""
    fp = res.get("fault_points") or {}
    pts = []
    for n in range(1, fp.get("writes", 0) + 1):
        pts += [["write_eio", n], ["write_enospc", n]]
    for n in range(1, fp.get("opens", 0) + 1):
        pts.append(["open_missing", n])
    for n in range(1, fp.get("reads", 0) + 1):
        pts.append(["read_eio", n])
    for n in range(1, fp.get("creates", 0) + 1):
        pts.append(["shm_enomem", n])
    total = len(pts)
    if cap is not None and len(pts) > cap:
        pts = [pts[i] for i in sorted(rng.sample(range(len(pts)), cap))]
    out = []
    for f in pts:
        c = copy.deepcopy(plan)
        c["faults"] = [f]
        out.append(c)
    return out, total


def shrink_candidates(plan):
    for ci in range(len(plan["ops"]) - 1, -1, -1):
        if len(plan["ops"]) > 1:
            c = copy.deepcopy(plan)
            del c["ops"][ci]
            yield c
    for ci, ops in enumerate(plan["ops"]):
        for oi in range(len(ops) - 1, -1, -1):
            c = copy.deepcopy(plan)
            del c["ops"][ci][oi]
            yield c
    for i in range(len(plan.get("faults") or [])):
        c = copy.deepcopy(plan)
        del c["faults"][i]
        yield c
    if plan.get("line"):
        c = copy.deepcopy(plan)
        c["line"] = False
        yield c
    for ci, ops in enumerate(plan["ops"]):
        for oi, op in enumerate(ops):
            if op[0] == "read" and op[2]:
                c = copy.deepcopy(plan)
                c["ops"][ci][oi][2] = 0
                yield c


def sample(plan):
    return dict(cap=plan["cap"], keys=plan["keys"], ops=[o[:8] for o in plan["ops"]], faults=plan.get("faults"), line=plan.get("line"))
