"""`dataplane` harness (C07): per host a real DataServer + a real shm LocalServer + a stub executor that owns the
host's message address; a scripted controller endpoint (real ReliableSender + Listener) issues transfer / fetch /
purge commands while the network drops, duplicates and delays payload frames, acks and commands."""
import collections
import copy

from sim import fakes, wire
from sim.kernel import Kernel, SimProc

NAME = "dataplane"
CADDR = "tcp://ctrl:1"


def gen_plan(rng, opts=None):
    o = dict(lossy=True)
    o.update(opts or {})
    nh = rng.randint(2, 3)
    hosts = [f"h{i}" for i in range(nh)]
    if o.get("burst"):
        # far more commands / payloads than one receive round usually sees, queued at one data server while it is descheduled
        nds = rng.randint(34, 60)
        dss = [f"t{i}.0" for i in range(nds)]
        home = {d: "h0" for d in dss}
        sizes = {d: rng.choice([1, 7, 100]) for d in dss}
        cmds = [["stall", rng.choice(["h0", "h1"]), "data", rng.choice([300, 900, 2000]), 0]]
        for d in dss:
            cmds.append(["tx", d, "h1", 0])
        for d in rng.sample(dss, rng.randint(32, nds)):
            cmds.append(["tx", d, hosts[-1], 0])
        net = dict(lat_lo=50_000, lat_hi=rng.choice([200_000, 5_000_000]), drop=0, dup=0, max_consec=None)
        if o["lossy"]:
            net.update(drop=rng.choice([0, 10]), dup=rng.choice([0, 10]), max_consec=2)
        return dict(hosts=hosts, dss=dss, home=home, sizes=sizes, cmds=cmds, net=net)
    nds = rng.randint(1, 5)
    dss = [f"t{i}.0" for i in range(nds)]
    home = {d: rng.choice(hosts) for d in dss}
    sizes = {d: rng.choice([1, 7, 100, 5000, 70000]) for d in dss}
    cmds = []
    for _ in range(rng.randint(2, 10)):
        d = rng.choice(dss)
        r = rng.random()
        gap = rng.choice([0, 0, 50, 100, 200, 400, 1000, 3000, 100_000, 300_000, 1_000_000, 3_000_000, 6_000_000])   # microseconds
        if r < 0.05:
            # the target's shm server stalls (stopped / swapped out) for seconds just when the payload of this transfer arrives
            cmds.append(["tx_stall", d, rng.choice(hosts), rng.choice([500, 2500, 5000, 9000]), gap])
        elif r < 0.12:
            # a purge at the target timed to land while the payload of this very transfer is being stored there
            cmds.append(["tx_purge", d, rng.choice(hosts), rng.choice([0, 0, 10, 30, 60, 100, 200, 500]), gap])
        elif r < 0.55:
            cmds.append(["tx", d, rng.choice(hosts), gap])
        elif r < 0.8:
            cmds.append(["fetch", d, gap])
        else:
            cmds.append(["purge", d, rng.choice(hosts), gap])
    net = dict(lat_lo=50_000, lat_hi=rng.choice([200_000, 5_000_000, 300_000_000, 2_000_000_000]), drop=0, dup=0, max_consec=None)
    if o["lossy"]:
        net.update(drop=rng.choice([0, 10, 25]), dup=rng.choice([0, 10, 25]), max_consec=rng.choice([2, 4]))
        if rng.random() < 0.3:
            # a connection outage: one frame (and what queues behind it on that pipe) arrives 5-40 s late
            net["plan"] = {"hold": {str(rng.randint(0, 40)): rng.choice([5, 13, 20, 40]) * 10**9}}
    return dict(hosts=hosts, dss=dss, home=home, sizes=sizes, cmds=cmds, net=net)


def _content(plan, r):
    n = plan["sizes"][r]
    return bytes((i * 7 + len(r) + ord(r[1])) & 0xFF for i in range(n)), f"deser.{r}"


def run(plan, ch, want_log=False):
    import cascade.shm.client as shm_client
    import cascade.shm.server as shm_server
    from cascade.executor.comms import Listener, ReliableSender, callback
    from cascade.executor.data_server import start_data_server
    from cascade.executor.msg import (Ack, DatasetPublished, DatasetPurge, DatasetTransmitCommand, DatasetTransmitFailure, DatasetTransmitPayload)
    from cascade.executor.runner.memory import ds2shmid
    from cascade.low.core import DatasetId
    K = Kernel(ch, max_steps=400_000, max_time_ns=3600 * 10**9)
    if want_log:
        K.tracelog = []
    net = plan["net"]
    ncfg = dict(lat=(net["lat_lo"], net["lat_hi"]), faultable=wire.faultable, fault_key=wire.fault_key, drop_pct=net["drop"], dup_pct=net["dup"],
                max_drops_per_message=net.get("max_consec"), plan=net.get("plan"))
    fakes.new_world(K, ncfg)
    K.name_child = lambda parent, target, args=(), kwargs=None: f"{parent.name}.{getattr(target, '__name__', 'p')}"
    hosts = plan["hosts"]
    ds_of = {r: DatasetId(*r.split(".")) for r in plan["dss"]}
    maddr = {h: f"tcp://{h}:1" for h in hosts}
    daddr = {h: f"tcp://{h}:2" for h in hosts}
    port = {h: 7000 + i for i, h in enumerate(hosts)}
    content = {r: _content(plan, r) for r in plan["dss"]}
    announced = collections.defaultdict(list)
    failures, payloads, viol = [], [], []
    loaded = {h: set() for h in hosts}
    final = {}
    ready, stop = [], {"stop": False}
    state = {}
    purge_delivered = collections.defaultdict(dict)    # host -> ds -> seq at which the data server received the purge
    # ---- continuous monitor: a segment is not unlinked while a data-server thread holds a buffer of it
    open_bufs = collections.Counter()                   # segment name -> buffers held by data server threads

    def on_unlink(name):
        if open_bufs.get(name, 0) > 0:
            viol.append(("C07", "unlinked_while_data_server_reads", name))
    K.handlers["shm_unlink"].append(on_unlink)
    orig_ab_init, orig_ab_close = shm_client.AllocatedBuffer.__init__, shm_client.AllocatedBuffer.close

    def ab_init(self_, shmid, l, create, close_callback, deser_fun):
        orig_ab_init(self_, shmid, l, create, close_callback, deser_fun)
        if ".data" in K.cur().proc.name or ".start_data_server" in K.cur().proc.name:
            self_._verif_name = shmid
            open_bufs[shmid] += 1

    def ab_close(self_):
        n = getattr(self_, "_verif_name", None)
        if n is not None and self_.shm is not None:
            # the mapping goes away first, then the close callback is sent
            open_bufs[n] -= 1
            self_._verif_name = None
        return orig_ab_close(self_)

    purge_on_payload = {}                              # (target host, transmit idx) -> (dataset, delay in us)
    stall_on_payload = {}                              # (target host, transmit idx) -> ms the target's shm server stalls
    procs = {}
    payload_first = collections.defaultdict(dict)      # host -> transmit idx -> seq at which its payload first reached the data server

    def zrecv(addr, frames):
        # what reaches each data server, and when: purges, and the first arrival of every payload
        import pickle
        from cascade.executor.msg import DatasetTransmitPayloadHeader
        from cascade.executor.serde import des_message
        for h in hosts:
            if addr != fakes.Net.norm(daddr[h]):
                continue
            try:
                if len(frames) == 1:
                    m = des_message(frames[0])
                    if isinstance(m, DatasetPurge):
                        purge_delivered[h].setdefault(repr(m.ds), K.seq)
                elif len(frames) == 3:
                    hd = pickle.loads(frames[1])
                    if isinstance(hd, DatasetTransmitPayloadHeader):
                        first = hd.confirm_idx not in payload_first[h]
                        payload_first[h].setdefault(hd.confirm_idx, K.seq)
                        st = stall_on_payload.pop((h, hd.confirm_idx), None) if first else None
                        if st is not None:
                            K.stall(procs[h + ".shm"], st * 1_000_000)
                        trig = purge_on_payload.pop((h, hd.confirm_idx), None) if first else None
                        if trig is not None:
                            from cascade.executor.serde import ser_message
                            ds, delay_us = trig
                            frames_p = [ser_message(DatasetPurge(ds=ds))]
                            K.fire("purge_timed_into_store")
                            K.at(K.now + delay_us * 1000, lambda a=fakes.Net.norm(daddr[h]), f=frames_p: K.net._deliver(a, f))
            except Exception:
                return
    K.handlers["zrecv"].append(zrecv)

    def shm(h):
        shm_server.entrypoint(port[h], 1 << 24, None, "s" + h)

    def stub_executor(h):
        """Stands for Executor.recv_loop: owns the host's message address, loads the home datasets, records announcements."""
        l = Listener(maddr[h])
        shm_client.ensure()
        for r in plan["dss"]:
            if plan["home"][r] == h:
                b = shm_client.allocate(ds2shmid(ds_of[r]), len(content[r][0]), content[r][1])
                b.view()[:] = content[r][0]
                b.close()
                loaded[h].add(r)
        ready.append(h)
        while not stop["stop"]:
            for m in l.recv_messages(500):
                if isinstance(m, DatasetPublished):
                    announced[h].append((repr(m.ds), m.transmit_idx, K.seq))
                elif isinstance(m, DatasetTransmitFailure):
                    failures.append((h, m.detail[:200]))
        for r in plan["dss"]:
            try:
                b = shm_client.get(ds2shmid(ds_of[r]), timeout_sec=5.0)
                final[(h, r)] = (bytes(b.view()), b.deser_fun)
                b.close()
            except (ValueError, TimeoutError):
                final[(h, r)] = None
        shm_client.shutdown()

    def controller():
        l = Listener(CADDR)
        s = ReliableSender(l.address, 800)
        for h in hosts:
            s.add_host("data." + h, daddr[h])
        K.block(lambda: len(ready) == len(hosts), None, "wait_ready")
        idx = 0
        holds = {h: set(loaded[h]) for h in hosts}
        purged = {h: set() for h in hosts}
        unanswered = {}
        issued = []

        def pump(ms, us=0):
            end = K.now + ms * 1_000_000 + us * 1000
            while K.now < end:
                left = end - K.now
                if left < 1_000_000:
                    K.sleep(left)        # sub-millisecond gaps: place a command inside another operation's window
                    break
                for m in l.recv_messages(min(200, max(1, left // 1_000_000))):
                    if isinstance(m, Ack):
                        s.ack(m.idx)
                    elif isinstance(m, DatasetTransmitPayload):
                        payloads.append((repr(m.header.ds), m.header.confirm_idx, bytes(m.value), m.header.deser_fun))
                        unanswered.pop(m.header.confirm_idx, None)
                try:
                    s.maybe_retry()
                except ValueError as e:
                    state.setdefault("gaveup", []).append(str(e)[:80])
                for h in hosts:
                    for (r, tidx, _) in announced[h]:
                        if tidx in unanswered:
                            unanswered.pop(tidx)
                            holds[h].add(r)

        for c in plan["cmds"]:
            pump(0, c[-1])
            if c[0] == "stall":
                K.stall(procs[c[1] + "." + c[2]], c[3] * 1_000_000)
                continue
            if c[0] in ("tx", "tx_purge", "tx_stall"):
                r, tgt = c[1], c[2]
                srcs = [h for h in hosts if r in holds[h] and r not in purged[h] and h != tgt]
                if not srcs or r in purged[tgt]:
                    continue
                src = srcs[K.ch.draw(len(srcs))]
                s.send("data." + src, DatasetTransmitCommand(source=src, target=tgt, daddress=daddr[tgt], ds=ds_of[r], idx=idx))
                unanswered[idx] = ("tx", r, src, tgt)
                issued.append(("tx", idx, r, src, tgt, r in holds[tgt], K.seq))
                if c[0] == "tx_stall":
                    stall_on_payload[(tgt, idx)] = c[3]
                if c[0] == "tx_purge" and r not in holds[tgt]:
                    purge_on_payload[(tgt, idx)] = (ds_of[r], c[3])
                    purged[tgt].add(r)
                    issued.append(("purge", None, r, tgt, None, False, K.seq))
                idx += 1
            elif c[0] == "fetch":
                _, r, _ = c
                srcs = [h for h in hosts if r in holds[h] and r not in purged[h]]
                if not srcs:
                    continue
                src = srcs[K.ch.draw(len(srcs))]
                s.send("data." + src, DatasetTransmitCommand(source=src, target="controller", daddress=CADDR, ds=ds_of[r], idx=idx))
                unanswered[idx] = ("fetch", r, src, None)
                issued.append(("fetch", idx, r, src, None, False, K.seq))
                idx += 1
            else:
                _, r, h, _ = c
                if any(u[1] == r and u[2] == h for u in unanswered.values()):
                    continue      # C04's contract: never purge at the source of an unanswered transfer / fetch
                callback(daddr[h], DatasetPurge(ds=ds_of[r]))      # what Executor.recv_loop forwards to its data server
                purged[h].add(r)
                holds[h].discard(r)
                issued.append(("purge", None, r, h, None, False, K.seq))
                K.probe("purge_overlapping_transfer") if any(u[0] == "tx" and u[1] == r and u[3] == h for u in unanswered.values()) else None
        pump(20_000)
        K.net.faults_on = False
        pump(40_000)
        state.update(issued=issued, purged=purged, unanswered=dict(unanswered), inflight=len(s.inflight))
        stop["stop"] = True

    root = SimProc(K, "root", toplevel=True)
    hp = {}
    for h in hosts:
        ph = SimProc(K, h, root, toplevel=True)
        ph.env["CASCADE_SHM_PORT"] = str(port[h])
        procs[h + ".shm"] = SimProc(K, h + ".shm", ph).start(lambda h=h: shm(h))
        procs[h + ".data"] = SimProc(K, h + ".data", ph).start(lambda h=h: start_data_server(maddr[h], daddr[h], h, port[h], {"version": 1}))
        ph.start(lambda h=h: stub_executor(h))
        hp[h] = ph
    pc = SimProc(K, "ctrl", root, toplevel=True).start(controller)
    K.stop_when = lambda: pc.exitcode is not None and all(hp[h].exitcode is not None for h in hosts)
    shm_client.AllocatedBuffer.__init__, shm_client.AllocatedBuffer.close = ab_init, ab_close
    try:
        end = K.run(wall_timeout=180)
    finally:
        shm_client.AllocatedBuffer.__init__, shm_client.AllocatedBuffer.close = orig_ab_init, orig_ab_close

    # ---------------- oracle at quiescence
    for (h, d) in failures:
        viol.append(("C07", "transmit_failure", (h, d)))
    for n_, e, tb in K.crashes:
        viol.append(("C07", "process_crash", (n_, e)))
    if "issued" not in state:
        viol.append(("C07", "controller_script_did_not_finish", end))
    issued, purged = state.get("issued", []), state.get("purged", {h: set() for h in hosts})
    for h in hosts:
        idxs = [t for (_, t, _) in announced[h] if t is not None]
        if len(idxs) != len(set(idxs)):
            viol.append(("C07", "announced_twice", (h, idxs)))
        for (r, tidx, seq) in announced[h]:
            ps = purge_delivered[h].get(r)
            pf = payload_first[h].get(tidx)
            if ps is not None and tidx is not None and pf is not None and pf > ps:
                # the payload reached this data server only after the purge did: it must have been discarded
                viol.append(("C07", "payload_after_purge_announced", (h, r, tidx)))
    for h in hosts:
        # a dataset's arrival is announced once per host: not again for a redundant transfer (another idx), not for a dataset
        # the host produced itself - unless it was purged there in between
        per_ds = collections.defaultdict(list)
        for (r, tidx, seq) in announced[h]:
            if tidx is not None:
                per_ds[r].append(seq)
        for r, seqs in per_ds.items():
            ps = purge_delivered[h].get(r)
            if r in loaded[h] and (ps is None or min(seqs) < ps):
                viol.append(("C07", "announced_although_already_held", (h, r, len(seqs))))
            elif len(seqs) > 1 and (ps is None or not (min(seqs) < ps < max(seqs))):
                viol.append(("C07", "dataset_announced_twice", (h, r, len(seqs))))
    for kind, idx, r, a, b, had, seq in issued:
        if kind == "tx":
            src, tgt = a, b
            if r in purged[tgt]:
                continue
            got = final.get((tgt, r))
            if got is None:
                viol.append(("C07", "transfer_not_stored", (idx, r, src, tgt)))
            elif got != content[r]:
                viol.append(("C07", "stored_bytes_differ", (idx, r, tgt, len(got[0]), got[1])))
            if not had and not any(rr == r for (rr, t, _) in announced[tgt]):
                viol.append(("C07", "arrival_never_announced", (idx, r, tgt)))
        elif kind == "fetch":
            ps_ = [p for p in payloads if p[1] == idx]
            if len(ps_) != 1:
                viol.append(("C07", "fetch_payload_count", (idx, r, len(ps_))))
            elif (ps_[0][2], ps_[0][3]) != content[r]:
                viol.append(("C07", "fetch_bytes_differ", (idx, r)))
    for h in hosts:
        for r in purged[h]:
            if final.get((h, r)) is not None:
                viol.append(("C07", "present_after_purge", (h, r)))
        for r in plan["dss"]:
            if final.get((h, r)) is not None and final[(h, r)] != content[r]:
                viol.append(("C07", "stored_bytes_differ", (None, r, h)))
    if state.get("gaveup"):
        K.probe("controller_sender_gave_up")
    fault_n = K.net.stats["dropped"] + K.net.stats["dup"]
    res = dict(harness=NAME, viol=[dict(prop=a, cls=b, detail=repr(c)[:400], sig={}) for a, b, c in viol], probes=dict(K.probes), fired=dict(K.fired),
               digest=K.digest(), steps=K.steps, simtime=(K.now - K.t0) / 1e9,
               stats=dict(commands=len(issued), transfers=sum(1 for i in issued if i[0] == "tx"), fetches=sum(1 for i in issued if i[0] == "fetch"),
                          purges=sum(1 for i in issued if i[0] == "purge"), dropped=K.net.stats["dropped"], dup=K.net.stats["dup"], frames=K.net.stats["sent"]),
               nontrivial=dict(C07=(fault_n > 0 or K.probes.get("purge_overlapping_transfer", 0) > 0) and len(issued) > 0),
               end=f"done/{end}" if "issued" in state else f"hang/{end}", verdict="ok" if "issued" in state else "hang", frame_points=K.net.nfaultable)
    if want_log:
        res["log"] = K.tracelog
        res["issued"] = issued
        res["announced"] = {h: v for h, v in announced.items()}
        res["crashes"] = [(a, b, c[-800:]) for a, b, c in K.crashes]
    return res


def expand(plan, res, rng, cap, kinds):
    n = res.get("frame_points", 0)
    pts = [("drop", i) for i in range(n)] + [("dup", i) for i in range(n)]
    total = len(pts)
    if cap is not None and len(pts) > cap:
        pts = [pts[i] for i in sorted(rng.sample(range(len(pts)), cap))]
    out = []
    for kind, i in pts:
        c = copy.deepcopy(plan)
        c["net"]["plan"] = {kind: [i]}
        out.append(c)
    return out, total


def shrink_candidates(plan):
    for i in range(len(plan["cmds"]) - 1, -1, -1):
        c = copy.deepcopy(plan)
        del c["cmds"][i]
        if c["cmds"]:
            yield c
    for r in plan["dss"]:
        if len(plan["dss"]) > 1:
            c = copy.deepcopy(plan)
            c["dss"].remove(r)
            c["home"].pop(r)
            c["sizes"].pop(r)
            c["cmds"] = [x for x in c["cmds"] if x[1] != r]
            if c["cmds"]:
                yield c
    if len(plan["hosts"]) > 2:
        c = copy.deepcopy(plan)
        gone = c["hosts"].pop()
        c["home"] = {r: (h if h != gone else c["hosts"][0]) for r, h in c["home"].items()}
        c["cmds"] = [x for x in c["cmds"] if gone not in x]
        if c["cmds"]:
            yield c
    for key, val in (("drop", 0), ("dup", 0), ("lat_hi", 200_000)):
        if plan["net"].get(key) != val:
            c = copy.deepcopy(plan)
            c["net"][key] = val
            yield c
    for r in plan["dss"]:
        if plan["sizes"][r] != 1:
            c = copy.deepcopy(plan)
            c["sizes"][r] = 1
            yield c
    for i, x in enumerate(plan["cmds"]):
        if x[-1]:
            c = copy.deepcopy(plan)
            c["cmds"][i][-1] = 0
            yield c
            if x[-1] > 1000:
                c = copy.deepcopy(plan)
                c["cmds"][i][-1] = x[-1] // 10
                yield c


def sample(plan):
    return plan
