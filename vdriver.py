#!/venv/bin/python
"""Check driver: seeded batches of simulated runs, evidence, known findings, shrinking, replay.

  vdriver.py check <ID> [--tier quick|thorough] [--replay FILE]
  vdriver.py worker <json-spec>          (internal: one interpreter with a pinned PYTHONHASHSEED)
"""
import collections
import json
import os
import random
import subprocess
import sys
import time

ROOT = os.path.dirname(os.path.abspath(__file__))
REPO_SRC = os.environ.get("VERIF_REPO_SRC", "/repo/src")
PY = sys.executable
NHASH = 4   # PYTHONHASHSEED of run i is i % NHASH: part of the seed, varies the scheduler's set iteration order

sys.path.insert(0, ROOT)


def bootstrap():
    """Import order matters: fakes first, then cascade from the repo's current working tree."""
    import logging
    logging.disable(logging.CRITICAL)
    while REPO_SRC in sys.path:
        sys.path.remove(REPO_SRC)
    sys.path.insert(0, REPO_SRC)
    from sim import fakes
    fakes.install()
    import cascade
    import earthkit.workflows
    for m in (cascade, earthkit.workflows):
        if not os.path.abspath(m.__file__).startswith(os.path.abspath(REPO_SRC)):
            raise RuntimeError(f"{m.__name__} imported from {m.__file__}, expected {REPO_SRC}")


def load_harness(name):
    import importlib
    return importlib.import_module(f"harness.{name}")


def run_seed(prop, group, i, base_seed, want_log=False, plan=None, trace=None):
    from sim.kernel import Choices, splitmix64
    h = load_harness(group["harness"])
    seed = splitmix64(base_seed, prop, group["harness"], group["name"], i)
    if plan is None:
        plan = h.gen_plan(random.Random(seed), group.get("opts"))
    ch = Choices(seed ^ 0x5DEECE66D, trace)
    res = h.run(plan, ch, want_log=want_log)
    res["seed"], res["i"], res["plan"], res["trace"] = seed, i, plan, ch.rec
    return res


# ---------------------------------------------------------------------------------------------- worker
def worker_main(spec):
    bootstrap()
    import faulthandler
    import traceback
    faulthandler.enable()
    prop, group, base_seed = spec["prop"], spec["group"], spec["base_seed"]
    deadline = time.time() + spec["budget_s"]
    C = collections.Counter
    agg = dict(runs=0, viol=C(), other=C(), probes=C(), fired=C(), probe_runs=C(), fired_runs=C(), digests=set(), nontrivial=set(), steps=0,
               simtime=0.0, ends=C(), samples=[], harness_errors=[], stats=C())
    out = sys.stdout
    h = load_harness(group["harness"])

    def account(res, i):
        agg["runs"] += 1
        agg["steps"] += res.get("steps", 0)
        agg["simtime"] += res.get("simtime", 0.0)
        agg["ends"][res.get("end", "?")] += 1
        for k, v in res.get("probes", {}).items():
            if v:
                agg["probes"][k] += v
                agg["probe_runs"][k] += 1
        for k, v in res.get("fired", {}).items():
            if v:
                agg["fired"][k] += v
                agg["fired_runs"][k] += 1
        for k, v in res.get("stats", {}).items():
            if isinstance(v, (int, float)) and not isinstance(v, bool):
                agg["stats"][k] += v
        agg["digests"].add(res["digest"])
        nt = bool(res.get("nontrivial", {}).get(prop))
        if nt:
            agg["nontrivial"].add(res["digest"])
        if len(agg["samples"]) < 2 and nt:
            agg["samples"].append(dict(i=i, seed=res["seed"], plan=h.sample(res["plan"]), end=res.get("end"), digest=res["digest"],
                                       steps=res.get("steps"), fired=res.get("fired")))
        for v in res["viol"]:
            (agg["viol"] if v["prop"] == prop else agg["other"])[f'{v["prop"]}:{v["cls"]}'] += 1
        if any(v["prop"] == "HARNESS" for v in res["viol"]):
            agg["harness_errors"].append(dict(i=i, err=[v for v in res["viol"] if v["prop"] == "HARNESS"][0]["detail"]))
        mine = [v for v in res["viol"] if v["prop"] == prop]
        if mine:
            out.write(json.dumps(dict(kind="viol", i=i, seed=res["seed"], viol=mine, plan=res["plan"], trace=res["trace"],
                                      digest=res["digest"], hashseed=spec["hashseed"], group=group["name"])) + "\n")
            out.flush()

    for i in (range(*spec["irange"]) if "irange" in spec else spec["indices"]):
        if time.time() > deadline or len(agg["harness_errors"]) > 3:
            break
        try:
            res = run_seed(prop, group, i, base_seed)
        except BaseException as e:  # harness failure: never a pass, never a violation
            agg["harness_errors"].append(dict(i=i, err=repr(e)[:300], tb=traceback.format_exc()[-1500:]))
            continue
        account(res, i)
        if agg["runs"] % 50 == 0:
            import gc
            gc.collect()
        en = group.get("enumerate")
        if en and not res["viol"] and res.get("verdict") in ("returned", "ok"):
            # single-fault enumeration along the recorded schedule (same seed => identical prefix up to the fault)
            derived, npts = h.expand(res["plan"], res, random.Random(res["seed"]), en.get(spec["tier"]), en["kinds"])
            agg["stats"]["base_runs"] += 1
            agg["stats"]["fault_points_total"] += npts
            for dplan in derived:
                if time.time() > deadline:
                    break
                try:
                    r2 = run_seed(prop, group, i, base_seed, plan=dplan)
                except BaseException as e:  # noqa
                    agg["harness_errors"].append(dict(i=i, err=repr(e)[:300], tb=traceback.format_exc()[-1500:], derived=dplan.get("faults")))
                    continue
                agg["stats"]["fault_points_exercised"] += 1
                account(r2, i)
    fin = {k: (dict(v) if isinstance(v, collections.Counter) else v) for k, v in agg.items()}
    fin["digests"] = sorted(agg["digests"])
    fin["nontrivial"] = sorted(agg["nontrivial"])
    out.write(json.dumps(dict(kind="done", **fin)) + "\n")
    out.flush()


# ---------------------------------------------------------------------------------------------- known findings
def load_known():
    p = os.path.join(ROOT, "known_findings.json")
    if not os.path.exists(p):
        return []
    return json.load(open(p))["findings"]


def kf_match(kf, v):
    classes = kf["class"] if isinstance(kf["class"], list) else [kf["class"]]
    if kf.get("status") != "open" or kf["property"] != v["prop"] or v["cls"] not in classes:
        return False
    for key, want in (kf.get("where") or {}).items():
        got = v.get("sig", {}).get(key)
        if isinstance(want, dict):
            if ">=" in want and not (got is not None and got >= want[">="]):
                return False
            if "in" in want and got not in want["in"]:
                return False
        elif got != want:
            return False
    return True


# ---------------------------------------------------------------------------------------------- replay / shrink
def run_in_fresh(prop, group, hashseed, plan, trace, want_log=False, timeout=300):
    """Run one (plan, trace) in a fresh interpreter with the given hash seed; returns the result dict."""
    spec = dict(prop=prop, group=group, plan=plan, trace=trace, want_log=want_log)
    env = dict(os.environ, PYTHONHASHSEED=str(hashseed))
    r = subprocess.run([PY, os.path.abspath(__file__), "one"], input=json.dumps(spec), capture_output=True, text=True, env=env, timeout=timeout)
    if r.returncode != 0:
        raise RuntimeError("replay subprocess failed: " + r.stderr[-2000:])
    return json.loads(r.stdout.strip().split("\n")[-1])


def one_main():
    bootstrap()
    spec = json.loads(sys.stdin.read())
    from sim.kernel import Choices
    h = load_harness(spec["group"]["harness"])
    ch = Choices(0, spec["trace"]) if spec.get("trace") is not None else Choices(spec.get("seed", 0))
    res = h.run(spec["plan"], ch, want_log=spec.get("want_log", False))
    res["trace"] = ch.rec
    print(json.dumps(res, default=repr))


def shrink_main():
    """Runs inside an interpreter with the right hash seed: delta-debug the plan, then the trace."""
    bootstrap()
    spec = json.loads(sys.stdin.read())
    from sim.kernel import Choices
    h = load_harness(spec["group"]["harness"])
    prop, cls = spec["prop"], spec["cls"]
    deadline = time.time() + spec.get("budget_s", 60)

    def fails(plan, trace=None, seeds=(0,)):
        for s in seeds:
            ch = Choices(s, trace) if trace is not None else Choices(s)
            try:
                res = h.run(plan, ch)
            except BaseException:
                continue
            if any(v["prop"] == prop and v["cls"] == cls for v in res["viol"]):
                return ch.rec, res
        return None

    plan, trace = spec["plan"], spec["trace"]
    got = fails(plan, trace)
    if got is None:
        print(json.dumps(dict(ok=False)))
        return
    best_res = got[1]
    progress = True
    rounds = 0
    while progress and time.time() < deadline:
        progress = False
        rounds += 1
        for cand in h.shrink_candidates(plan):
            if time.time() > deadline:
                break
            # the recorded trace first (prefix determinism often keeps it failing), then fresh schedules
            g = fails(cand, trace) or fails(cand, None, seeds=range(1, 9))
            if g is not None:
                plan, (trace, best_res) = cand, g
                progress = True
                break
    # trace shrinking: cut the tail to zeros, then zero single entries in blocks
    n = len(trace)
    cut = n
    while cut > 0 and time.time() < deadline:
        half = cut // 2
        t2 = trace[:half]
        g = fails(plan, t2)
        if g is not None:
            trace, best_res, cut = g[0], g[1], half
        else:
            break
    block = max(1, len(trace) // 8)
    while block >= 1 and time.time() < deadline:
        i = 0
        while i < len(trace) and time.time() < deadline:
            if any(trace[i:i + block]):
                t2 = trace[:i] + [0] * min(block, len(trace) - i) + trace[i + block:]
                g = fails(plan, t2)
                if g is not None:
                    trace, best_res = g[0], g[1]
            i += block
        block //= 2
    v = [x for x in best_res["viol"] if x["prop"] == prop and x["cls"] == cls][0]
    print(json.dumps(dict(ok=True, plan=plan, trace=trace, digest=best_res["digest"], viol=v, rounds=rounds), default=repr))


def shrink(prop, group, hashseed, plan, trace, cls, budget_s=60):
    spec = dict(prop=prop, group=group, plan=plan, trace=trace, cls=cls, budget_s=budget_s)
    env = dict(os.environ, PYTHONHASHSEED=str(hashseed))
    try:
        r = subprocess.run([PY, os.path.abspath(__file__), "shrink"], input=json.dumps(spec), capture_output=True, text=True, env=env,
                           timeout=budget_s * 3 + 120)
        out = json.loads(r.stdout.strip().split("\n")[-1])
        if out.get("ok"):
            return out
    except Exception as e:  # noqa
        sys.stderr.write(f"shrink failed: {e!r}\n")
    return None


def write_replay(prop, group, hashseed, plan, trace, viol, digest, seed, minimised):
    os.makedirs(os.path.join(ROOT, "replays"), exist_ok=True)
    name = f"{prop}-{viol['cls']}-{seed & 0xFFFFFFFF:08x}.json"
    path = os.path.join(ROOT, "replays", name)
    json.dump(dict(property=prop, group=group, hashseed=hashseed, plan=plan, trace=trace, violation=viol, digest=digest, seed=seed,
                   minimised=minimised, replay_cmd=f"./check {prop} --replay replays/{name}"), open(path, "w"), indent=1, default=repr)
    return path


def replay_main(prop, path):
    rp = json.load(open(path))
    res = run_in_fresh(rp["property"], rp["group"], rp["hashseed"], rp["plan"], rp["trace"])
    want = rp["violation"]
    got = [v for v in res["viol"] if v["prop"] == want["prop"] and v["cls"] == want["cls"]]
    if got and res["digest"] == rp["digest"]:
        print(f"VIOLATION property={want['prop']} replay={path}")
        print(f"  reproduced: class={want['cls']} digest={res['digest']} detail={got[0]['detail'][:300]}")
        return 1
    if got:
        print(f"HARNESS-ERROR replay reproduced the violation class but digest differs ({res['digest']} != {rp['digest']})")
        return 2
    print(f"replay did not reproduce {want['prop']}:{want['cls']} (got {[(v['prop'], v['cls']) for v in res['viol']]}) - the code under test may have changed")
    return 0


# ---------------------------------------------------------------------------------------------- check
def check_main(prop, tier, replay=None):
    import props
    if replay:
        return replay_main(prop, replay)
    t0 = time.time()
    cfg = props.PROPS[prop]
    base_seed = int(os.environ.get("VERIF_SEED", "0"))
    procs = int(os.environ.get("VERIF_PROCS", str(os.cpu_count() or 4)))
    procs = max(NHASH, procs - procs % NHASH)
    budget = float(os.environ.get("VERIF_BUDGET_S", cfg["budget"][tier]))
    rc = props.audit()
    if rc:
        return rc
    groups = [g for g in cfg["groups"] if tier in g.get("tiers", ("quick", "thorough"))]
    known = load_known()
    total = collections.Counter()
    agg = dict(probes=collections.Counter(), fired=collections.Counter(), probe_runs=collections.Counter(), fired_runs=collections.Counter(),
               viol=collections.Counter(), other=collections.Counter(), ends=collections.Counter(), stats=collections.Counter())
    digests, nontrivial, samples, per_group = set(), set(), [], []
    harness_errors, known_hits, unlisted = [], collections.OrderedDict(), []
    wsum = sum(g["weight"] for g in groups)
    for g in groups:
        gb = budget * g["weight"] / wsum
        n = g["runs"][tier]
        ws = []
        for w in range(procs):
            hs = w % NHASH
            # run i goes to the worker with hash seed i mod NHASH: for worker w the arithmetic progression start, start+procs, ...
            # (passed as a range: a list of several 10^4 indices does not fit a command-line argument)
            start = hs + NHASH * (w // NHASH)
            assert list(range(start, min(n, 4 * procs), procs)) == [i for i in range(min(n, 4 * procs)) if i % NHASH == hs and (i // NHASH) % (procs // NHASH) == w // NHASH]
            spec = dict(prop=prop, group=g, base_seed=base_seed, irange=[start, n, procs], budget_s=gb, hashseed=hs, tier=tier)
            env = dict(os.environ, PYTHONHASHSEED=str(hs))
            p = subprocess.Popen([PY, os.path.abspath(__file__), "worker", json.dumps(spec)], stdout=subprocess.PIPE, stderr=subprocess.PIPE, env=env, text=True)
            ws.append(p)
        g_runs = 0
        gt0 = time.time()
        for p in ws:
            try:
                so, se = p.communicate(timeout=gb + 600)
            except subprocess.TimeoutExpired:
                p.kill()
                harness_errors.append(dict(err="worker wall timeout"))
                continue
            done = False
            for line in so.splitlines():
                try:
                    m = json.loads(line)
                except ValueError:
                    continue
                if m["kind"] == "viol":
                    for v in m["viol"]:
                        kf = next((k for k in known if kf_match(k, v)), None)
                        if kf is not None:
                            known_hits.setdefault(kf["id"], [kf, 0, m])
                            known_hits[kf["id"]][1] += 1
                        else:
                            unlisted.append((m, v))
                elif m["kind"] == "done":
                    done = True
                    g_runs += m["runs"]
                    for k in ("probes", "fired", "probe_runs", "fired_runs", "viol", "other", "ends", "stats"):
                        agg[k].update(m[k])
                    digests.update(m["digests"])
                    nontrivial.update(m["nontrivial"])
                    samples.extend(m["samples"])
                    total["steps"] += m["steps"]
                    total["simtime"] += m["simtime"]
                    harness_errors.extend(m["harness_errors"])
            if not done:
                harness_errors.append(dict(err="worker died", rc=p.returncode, stderr=(se or "")[-1500:]))
        total["runs"] += g_runs
        per_group.append(dict(group=g["name"], harness=g["harness"], runs=g_runs, planned=n, wall_s=round(time.time() - gt0, 1)))
    wall = time.time() - t0
    # ---- report
    rcode = 0
    replay_paths = []
    if unlisted:
        seen_cls = set()
        unlisted.sort(key=lambda mv: (mv[1]["cls"], len(json.dumps(mv[0]["plan"]))))
        for m, v in unlisted:
            if v["cls"] in seen_cls or len(seen_cls) >= 3:
                continue
            seen_cls.add(v["cls"])
            g = next(x for x in groups if x["name"] == m["group"])
            sh = shrink(prop, g, m["hashseed"], m["plan"], m["trace"], v["cls"], budget_s=float(os.environ.get("VERIF_SHRINK_S", "45")))
            if sh is not None:
                path = write_replay(prop, g, m["hashseed"], sh["plan"], sh["trace"], sh["viol"], sh["digest"], m["seed"], True)
            else:
                path = write_replay(prop, g, m["hashseed"], m["plan"], m["trace"], v, m["digest"], m["seed"], False)
            replay_paths.append(path)
            print(f"VIOLATION property={prop} replay={path}")
            print(f"  class={v['cls']} seed={m['seed']} group={m['group']} detail={v['detail'][:300]}")
        rcode = 1
    for kid, (kf, n, m) in known_hits.items():
        print(f"KNOWN-FINDING: property={prop} {kid} {kf['what'][:200]} (hit in {n} runs, e.g. seed {m['seed']})")
    for kf in known:
        if kf["property"] == prop and kf.get("status") == "open" and kf["id"] not in known_hits:
            print(f"KNOWN-FINDING: property={prop} {kf['id']} {kf['what'][:200]} (listed; not hit in this run)")
    if harness_errors:
        for he in harness_errors[:5]:
            print("HARNESS-ERROR", json.dumps(he)[:1500])
        if rcode == 0:
            rcode = 2
    ev = dict(
        property_id=prop, tier=tier, seed=base_seed, level=cfg["level"],
        coverage=dict(
            evaluations=total["runs"], distinct_nontrivial=len(nontrivial), rule=cfg["rule"], samples=samples[:4],
            distinct_interleavings=len(digests), groups=per_group, runs_per_hour=int(total["runs"] / max(wall, 1e-6) * 3600),
            scheduling_steps=total["steps"], simulated_seconds=round(total["simtime"], 1),
            faults_fired=dict(agg["fired"]), runs_with_fault=dict(agg["fired_runs"]), probes_hit=dict(agg["probes"]), runs_with_probe=dict(agg["probe_runs"]),
            run_endings=dict(agg["ends"]), workload_totals=dict(agg["stats"]),
            violations_by_class=dict(agg["viol"]), ended_by_other_property=dict(agg["other"]),
            known_findings_hit={k: v[1] for k, v in known_hits.items()},
            real_components=cfg["real"], stubbed_components=cfg["stub"], hashseeds=list(range(NHASH)), worker_processes=procs,
            replay_files=replay_paths, harness_errors=len(harness_errors), exhaustive=False),
        assumptions=cfg["assumptions"], wall_s=round(wall, 2), violations=len(unlisted))
    evdir = os.environ.get("VERIF_EVIDENCE_DIR", os.path.join(ROOT, "evidence"))
    os.makedirs(evdir, exist_ok=True)
    path = os.path.join(evdir, f"{prop}.json")
    json.dump(ev, open(path, "w"), indent=1, default=repr)
    try:
        import jsonschema
        jsonschema.validate(json.load(open(path)), json.load(open("/root/.vp/EVIDENCE.schema.json")))
    except ImportError:
        pass
    except Exception as e:  # noqa
        print("HARNESS-ERROR evidence does not validate:", repr(e)[:300])
        rcode = rcode or 2
    print(f"{prop} {tier}: {total['runs']} runs, {len(digests)} distinct interleavings, {len(nontrivial)} non-trivial, "
          f"{len(unlisted)} unlisted violations, {sum(v[1] for v in known_hits.values())} known-finding hits, {wall:.1f}s -> exit {rcode}")
    return rcode


def digests_main(spec):
    """Internal: print one JSON line with the digest of every requested run (selftest determinism)."""
    bootstrap()
    out = []
    idx = spec["indices"][::-1] if spec.get("reverse") else spec["indices"]
    for i in idx:
        res = run_seed(spec["prop"], spec["group"], i, spec["base_seed"])
        out.append((i, res["digest"], res.get("end"), len(res["trace"])))
    print(json.dumps(sorted(out)))


def selftest_determinism(n, only=None):
    """Every (property, group): n seeds, each run in two fresh interpreters (the second one in reverse order, so that
    whatever state leaks between runs in one process would show), same PYTHONHASHSEED; digests must be identical."""
    import props
    jobs = []
    seen = set()
    for prop, cfg in sorted(props.PROPS.items()):
        if only and prop not in only:
            continue
        for g in cfg["groups"]:
            key = (g["harness"], json.dumps(g.get("opts"), sort_keys=True))
            if key in seen:
                continue
            seen.add(key)
            for hs in range(NHASH):
                idx = [i for i in range(n * NHASH) if i % NHASH == hs]
                jobs.append((prop, g, hs, idx))
    bad = 0
    total = 0
    procs = []
    for prop, g, hs, idx in jobs:
        for rev in (False, True):
            spec = dict(prop=prop, group=g, base_seed=int(os.environ.get("VERIF_SEED", "0")), indices=idx, reverse=rev)
            env = dict(os.environ, PYTHONHASHSEED=str(hs))
            procs.append((prop, g["name"], hs, rev, subprocess.Popen([PY, os.path.abspath(__file__), "digests", json.dumps(spec)], stdout=subprocess.PIPE,
                                                                   stderr=subprocess.PIPE, env=env, text=True)))
            while sum(1 for p in procs if p[4].poll() is None) >= (os.cpu_count() or 4):
                time.sleep(0.05)
    results = {}
    for prop, gname, hs, rev, p in procs:
        so, se = p.communicate(timeout=1800)
        if p.returncode != 0:
            print(f"HARNESS-ERROR selftest worker failed {prop}/{gname}: {se[-800:]}")
            bad += 1
            continue
        results[(prop, gname, hs, rev)] = json.loads(so.strip().split("\n")[-1])
    for (prop, gname, hs, rev), a in sorted(results.items()):
        if rev:
            continue
        b = results.get((prop, gname, hs, True))
        if b is None:
            continue
        total += len(a)
        diff = [(x, y) for x, y in zip(a, b) if x != y]
        if diff:
            bad += len(diff)
            print(f"NONDETERMINISM {prop}/{gname} hashseed={hs}: {diff[:3]}")
    print(f"selftest determinism: {total} runs compared pairwise in fresh interpreters, {bad} mismatches")
    return 0 if bad == 0 else 2


def main():
    cmd = sys.argv[1]
    if cmd == "worker":
        worker_main(json.loads(sys.argv[2]))
    elif cmd == "one":
        one_main()
    elif cmd == "shrink":
        shrink_main()
    elif cmd == "digests":
        digests_main(json.loads(sys.argv[2]))
    elif cmd == "selftest":
        n = int(sys.argv[2]) if len(sys.argv) > 2 else 5
        sys.exit(selftest_determinism(n, set(sys.argv[3:]) or None))
    elif cmd == "dev":
        # dev <prop> <group-name> <i0> [n] : run seeds in-process, print verdicts (debugging aid)
        import props
        bootstrap()
        prop, gname, i0 = sys.argv[2], sys.argv[3], int(sys.argv[4])
        n = int(sys.argv[5]) if len(sys.argv) > 5 else 1
        g = next(x for x in props.PROPS[prop]["groups"] if x["name"] == gname)
        t0 = time.time()
        cnt = collections.Counter()
        for i in range(i0, i0 + n):
            res = run_seed(prop, g, i, int(os.environ.get("VERIF_SEED", "0")), want_log=(n == 1))
            cnt[res["end"]] += 1
            if n == 1:
                for l in (res.get("log") or [])[-int(os.environ.get("TAIL", "60")):]:
                    print(l[:220])
                res.pop("log", None); res.pop("trace", None)
                print(json.dumps(res, indent=1, default=repr)[:6000])
            elif res["viol"]:
                print(i, res["end"], [(v["prop"], v["cls"], v["detail"][:200]) for v in res["viol"]])
        print(dict(cnt), f"{n/(time.time()-t0):.1f} runs/s")
    elif cmd == "check":
        import argparse
        ap = argparse.ArgumentParser()
        ap.add_argument("prop")
        ap.add_argument("--tier", default=os.environ.get("VERIF_TIER", "quick"))
        ap.add_argument("--replay")
        a = ap.parse_args(sys.argv[2:])
        sys.exit(check_main(a.prop, a.tier, a.replay))
    else:
        sys.exit(f"unknown command {cmd}")


if __name__ == "__main__":
    main()
