"""Property table: which harness groups decide which property, budgets, evidence texts."""
import os
import sys

REAL_CTL = ["cascade.controller.{impl,notify,act,report}", "cascade.scheduler.{api,assign,core,graph}", "cascade.low.{core,views}",
            "cascade.executor.runner.runner (direct-execution mode)", "cascade.executor.msg", "cascade.executor.serde.des_output"]
STUB_CTL = ["Bridge (model cluster: per-host stores, worker queues, pending transfers/fetches, per-host event FIFOs)",
            "runner.memory.Memory (dict per host)"]

PROPS = {}


def audit():
    from sim import audit as A
    return A.run()


def _ctl_groups(q, t, extra=None):
    gs = [
        dict(name="fifo", harness="ctl", weight=2, runs=dict(quick=q, thorough=t), opts=dict(reorder=False, swap=False)),
        dict(name="reorder", harness="ctl", weight=2, runs=dict(quick=q, thorough=t), opts=dict(reorder=True, swap=False)),
        dict(name="wide", harness="ctl", weight=2, runs=dict(quick=q // 2, thorough=t // 2), opts=dict(reorder=True, swap=False, nmax=40, hmax=6, wmax=4)),
        # two events of one host swapped on delivery: what a lost frame and its retransmission do to the order
        dict(name="swap", harness="ctl", weight=1, runs=dict(quick=q // 4, thorough=t // 4), opts=dict(reorder=True, swap=True)),
        # the judged run is the second run() with one precompute() result (initialize() must leave the Preschedule as it found it)
        dict(name="rerun", harness="ctl", weight=1, runs=dict(quick=q // 4, thorough=t // 4), opts=dict(reorder=True, swap=False, rerun=100)),
    ]
    return gs + (extra or [])


PROPS["C02"] = dict(
    level="exploration", budget=dict(quick=60, thorough=900), groups=_ctl_groups(40000, 600000),
    rule="run = (job DAG, cluster shape, delivery schedule) drawn from the seed; distinct = distinct SHA-256 of the Bridge command/event log; "
         "non-trivial = at least one task was dispatched while one of its inputs was still in transfer to the target host",
    real=REAL_CTL, stub=STUB_CTL,
    assumptions=["the model Bridge delivers every event of one host in FIFO order except where the 'reorder' knob permutes the announcements of one task "
                 "(each travels through its own PUSH socket)", "worker half (inputs physically present when the task body starts) is checked in the cluster harness"],
)

PROPS["C01"] = dict(
    level="exploration", budget=dict(quick=60, thorough=900),
    groups=[
        dict(name="exec", harness="ctl", weight=3, runs=dict(quick=12000, thorough=200000), opts=dict(reorder=True, swap=False, exec_pct=100)),
        dict(name="exec-wide", harness="ctl", weight=2, runs=dict(quick=4000, thorough=80000), opts=dict(reorder=True, swap=False, exec_pct=100, nmax=30, hmax=6, wmax=4)),
        dict(name="exec-rerun", harness="ctl", weight=1, runs=dict(quick=3000, thorough=50000), opts=dict(reorder=True, swap=False, exec_pct=100, rerun=100)),
    ],
    rule="run = (job DAG, cluster shape, requested outputs, delivery schedule) from the seed, task bodies really executed through runner.run; "
         "distinct = distinct SHA-256 of the Bridge command/event log; non-trivial = >=2 tasks, >=1 requested output and >=1 inter-host transfer or fetch",
    real=REAL_CTL, stub=STUB_CTL,
    assumptions=["values are digests of (task, positional args, keyword args) so any misbinding, stale or foreign dataset changes the value",
                 "reference = independent sequential interpreter of the job plan (sim/jobs.py refeval_plan)"],
)
PROPS["C03"] = dict(
    level="exploration", budget=dict(quick=60, thorough=900), groups=_ctl_groups(40000, 600000),
    rule="run = (job DAG incl. empty / disconnected / more components than hosts, feasible cluster, fair delivery schedule) from the seed; "
         "distinct = distinct SHA-256 of the Bridge command/event log; non-trivial = >=2 weakly connected components or >=6 tasks",
    real=REAL_CTL, stub=STUB_CTL,
    assumptions=["fairness: the model executes a randomly drawn enabled action, so every enabled action is eventually executed",
                 "round bound D + D*H + R*H + 1 (D datasets, H hosts, R requested outputs)"],
)
PROPS["C04"] = dict(
    level="exploration", budget=dict(quick=60, thorough=900), groups=_ctl_groups(40000, 600000),
    rule="run = (job DAG, cluster shape, requested outputs, delivery schedule) from the seed; distinct = distinct SHA-256 of the Bridge command/event log; "
         "non-trivial = >=1 cross-host transfer commanded and >=1 purge commanded",
    real=REAL_CTL, stub=STUB_CTL,
    assumptions=["model truth (what each host's store holds, which reads are still pending) is the simulated cluster's, not the controller's belief",
                 "a purge at the *target* of a pending transfer is legal (counted as probe purge_at_pending_target); a purge at the source of a pending read is the violation"],
)

REAL_CLUSTER = ["cascade.executor.{bridge,comms,serde,msg,executor,data_server}", "cascade.executor.runner.{entrypoint,runner,memory,packages}",
                "cascade.controller.{impl,notify,act,report}", "cascade.scheduler.*", "cascade.shm.{api,client,server,dataset,algorithms,disk}", "cascade.low.*"]
STUB_CLUSTER = ["zmq (simulated network: atomic multipart, per-link FIFO, no cross-link order, drop/dup only on Syn/Ack frames)",
                "UDP loopback sockets", "multiprocessing fork context (processes are baton threads)", "multiprocessing.shared_memory.SharedMemory",
                "ThreadPoolExecutor/wait", "time/sleep (virtual clock)", "uuid4", "atexit/signal/logging.config", "subprocess findmnt",
                "cluster launcher glue of cascade.benchmarks.__main__ (4 lines re-written in the harness)"]

CL_FREE = dict(name="cl-free", harness="cluster", weight=3, runs=dict(quick=1500, thorough=40000), opts=dict(lossy=False, jitter=True))
CL_FAIR = dict(name="cl-fairloss", harness="cluster", weight=2, runs=dict(quick=600, thorough=20000), opts=dict(lossy=True, fair=True, jitter=True))
CL_SLOW = dict(name="cl-slow", harness="cluster", weight=2, runs=dict(quick=600, thorough=20000), opts=dict(lossy=False, jitter=True, slow=True))
for _p in ("C01", "C02", "C03", "C04"):
    PROPS[_p]["groups"].append(CL_SLOW)
PROPS["C02"]["groups"].append(CL_FAIR)
PROPS["C01"]["groups"].append(CL_FAIR)
PROPS["C03"]["groups"].append(CL_FAIR)
PROPS["C04"]["groups"].append(CL_FAIR)
# exactly-once dispatch across the wire: a command whose acknowledgements are cut off for many seconds must not reach the executor twice
PROPS["C02"]["groups"].append(dict(name="wire-partition", harness="comms", weight=1, runs=dict(quick=200, thorough=6000), opts=dict(lossy=False, partition=True)))
PROPS["C01"]["groups"].append(CL_FREE)
PROPS["C02"]["groups"].append(CL_FREE)
PROPS["C03"]["groups"].append(CL_FREE)
PROPS["C04"]["groups"].append(CL_FREE)
for _p in ("C01", "C02", "C03", "C04"):
    PROPS[_p]["real"] = REAL_CTL + ["cluster harness: " + ", ".join(REAL_CLUSTER)]
    PROPS[_p]["stub"] = STUB_CTL + ["cluster harness: " + ", ".join(STUB_CLUSTER)]


_LT = {
 "C01": "seeded exploration of (job, cluster shape, requested outputs, delivery schedule): every run must return exactly the reference interpreter's values; ctl harness (real controller+scheduler+runner vs model cluster) for volume, cluster harness (everything real on the simulated network) for the integrated path",
 "C02": "seeded exploration; the model Bridge is the monitor for the controller half (dispatch exactly once, free worker, GPU, inputs produced and present-or-in-transfer); the cluster harness checks the worker half (inputs completely written on the host when a sequence starts; one execution per task)",
 "C03": "seeded exploration of fair delivery orders over wide shapes; oracles: run returns, shutdown exactly once, no wait with nothing outstanding, no spin (watchdog), no bookkeeping exception, bounded rounds and commands",
 "C04": "seeded exploration; oracle at the Bridge seam against model truth (who holds what, which reads are pending); cluster harness reports the physical consequence (transmit failure / data-server crash)",
}
_LN = "Trusted base: the simulator (kernel, fakes, model Bridge) and the reference interpreter; sampling, not enumeration - a clean batch is evidence, not proof; zmq/UDP/shm fakes model the documented guarantees of the real transports (DESIGN.md section 12)"
for _p, _t in _LT.items():
    PROPS[_p]["level_text"] = _t
    PROPS[_p]["level_note"] = _LN

PROPS["C05"] = dict(
    level="fault_enumeration", budget=dict(quick=90, thorough=900),
    groups=[
        dict(name="clean", harness="cluster", weight=1, runs=dict(quick=600, thorough=10000), opts=dict(lossy=False, jitter=True)),
        dict(name="taskfail", harness="cluster", weight=2, runs=dict(quick=800, thorough=20000), opts=dict(faults=["task_raise", "task_exit0", "task_exit3", "task_raise_mid"])),
        dict(name="killworker", harness="cluster", weight=2, runs=dict(quick=800, thorough=20000), opts=dict(faults=["kill_worker"])),
        dict(name="killdata", harness="cluster", weight=2, runs=dict(quick=600, thorough=15000), opts=dict(faults=["kill_data"])),
        dict(name="killshm", harness="cluster", weight=2, runs=dict(quick=600, thorough=15000), opts=dict(faults=["kill_shm"])),
    ],
    rule="run = (job, cluster shape, schedule, one or two crash faults: task raises / sys.exit(0|3) / raises between outputs / worker, data server or shm server "
         "killed at its n-th seam call after registration); distinct = distinct event-log digest; non-trivial = a fault fired while at least one task was unfinished or the run did not return normally",
    real=REAL_CLUSTER, stub=STUB_CLUSTER,
    assumptions=["executor and controller processes are never killed (the property is conditional on the owning executor being alive)",
                 "bounded end = 300 virtual seconds after the last fault (child death polled every <=0.8 s, 20 x 0.8 s retries, 180 s shutdown grace); clean exit within a further 200 s",
                 "a kill unwinds the victim's Python stack with every seam call suppressed (a SIGKILLed process sends nothing)"],
    level_text="seeded crash-fault injection into the whole real cluster on the simulated network, plus enumeration of every kill point of the chosen process along recorded base schedules; oracle: bounded end, never a wrong value, clean exit (no child, no segment) - also after every fault-free run",
    level_note=_LN,
)

PROPS["C05"]["groups"] += [
    dict(name="kill-lossy", harness="cluster", weight=2, runs=dict(quick=500, thorough=15000), opts=dict(faults=["kill_worker", "kill_data", "task_raise", "task_exit0"], lossy=True, fair=True)),
    dict(name="kill-slow", harness="cluster", weight=2, runs=dict(quick=500, thorough=15000), opts=dict(faults=["kill_worker", "kill_data", "kill_shm", "task_raise", "task_exit3"], slow=True)),
    dict(name="enum-kill", harness="cluster", weight=4, runs=dict(quick=64, thorough=4000), opts=dict(lossy=False, jitter=True, nmax=6),
         enumerate=dict(kinds=["kill_worker", "kill_data", "kill_shm", "task"], quick=60, thorough=None)),
]

REAL_COMMS = ["cascade.executor.comms (Listener, ReliableSender, callback, send_data)", "cascade.executor.bridge.Bridge (registration, recv_events, shutdown)",
              "cascade.executor.executor.Executor (register, recv_loop, healthcheck, terminate, to_controller)", "cascade.executor.serde", "cascade.executor.msg"]
STUB_COMMS = ["zmq (simulated network with drop/duplicate/delay/partition on Syn and Ack frames)", "executor children: stub shm server, stub data server (real Listener), stub workers answering every TaskSequence with a DatasetPublished",
              "shm client (ensure/shutdown no-ops)", "virtual clock"]
PROPS["C06"] = dict(
    level="fault_enumeration", budget=dict(quick=90, thorough=900),
    groups=[
        dict(name="clean", harness="comms", weight=1, runs=dict(quick=600, thorough=10000), opts=dict(lossy=False)),
        dict(name="lossy", harness="comms", weight=3, runs=dict(quick=2500, thorough=60000), opts=dict(lossy=True)),
        dict(name="partition", harness="comms", weight=2, runs=dict(quick=600, thorough=15000), opts=dict(lossy=False, partition=True)),
        dict(name="exec-malformed", harness="comms", weight=1, runs=dict(quick=300, thorough=8000), opts=dict(lossy=False, bad_frames=True, max_ops=12)),
        dict(name="burst", harness="comms", weight=1, runs=dict(quick=300, thorough=8000), opts=dict(lossy=False, burst=True)),
        dict(name="burst-lossy", harness="comms", weight=1, runs=dict(quick=300, thorough=8000), opts=dict(lossy=True, burst=True)),
        dict(name="malformed", harness="comms", weight=1, runs=dict(quick=1500, thorough=30000), opts=dict(mode="malformed")),
        dict(name="enum-frame", harness="comms", weight=3, runs=dict(quick=64, thorough=3000), opts=dict(lossy=False, max_ops=12),
             enumerate=dict(kinds=["frame"], quick=50, thorough=None)),
        dict(name="cl-lossy", harness="cluster", weight=3, runs=dict(quick=600, thorough=20000), opts=dict(lossy=True, jitter=True)),
    ],
    rule="run = (endpoints, command script in both directions, per-frame drop/duplicate/delay pattern or partition or malformed sequences, schedule); "
         "distinct = distinct event-log digest; non-trivial = at least one drop or duplicate fired on an acknowledged frame or ack, a partition was active, or a malformed sequence was injected",
    real=REAL_COMMS + ["cluster group: everything of the cluster harness"], stub=STUB_COMMS,
    assumptions=["loss and duplication are applied only to Syn-prefixed frames and bare Acks (traffic the protocol is built to survive); local unacknowledged frames are delayed/reordered only",
                 "messages handed over after an endpoint began teardown (ExecutorExit, last ExecutorShutdown) are excluded from the liveness clause (counted as excluded_teardown_message)",
                 "fair loss = fewer consecutive drops on one link than the retry budget"],
    level_text="seeded fault injection on the wire (drop / duplicate / delay of acknowledged frames and of acks, partitions longer than the retry budget, malformed multipart sequences) with the real Bridge and Executor receive loops, plus single-loss and single-duplication enumeration of every acknowledged frame and ack of recorded base runs; oracle over (sender address, idx): delivered at most once, equal to what was sent, at quiescence delivered exactly once or the sender raised, bounded give-up, malformed sequences rejected",
    level_note=_LN,
)
PROPS["C02"]["real"] = PROPS["C02"]["real"] + ["comms harness (group wire-partition): " + ", ".join(REAL_COMMS)]
PROPS["C02"]["stub"] = PROPS["C02"]["stub"] + ["comms harness: " + ", ".join(STUB_COMMS)]


REAL_DP = ["cascade.executor.data_server.DataServer (recv_loop, send_payload, store_payload, maybe_clean, its 2-thread pool)", "cascade.executor.comms (Listener, ReliableSender, callback, send_data)",
           "cascade.shm.{client,server,dataset,disk,api}", "cascade.executor.runner.memory.ds2shmid", "cascade.executor.serde"]
STUB_DP = ["zmq / UDP / SharedMemory / ThreadPoolExecutor / clock fakes", "executor of each host: stub that owns the message address, pre-loads datasets through the real shm client and records announcements",
           "controller: scripted endpoint (real ReliableSender + Listener) that respects C04's contract (no purge at the source of an unanswered transfer/fetch)"]
PROPS["C07"] = dict(
    level="fault_enumeration", budget=dict(quick=90, thorough=900),
    groups=[
        dict(name="clean", harness="dataplane", weight=1, runs=dict(quick=400, thorough=8000), opts=dict(lossy=False)),
        dict(name="lossy", harness="dataplane", weight=3, runs=dict(quick=1200, thorough=40000), opts=dict(lossy=True)),
        dict(name="burst", harness="dataplane", weight=1, runs=dict(quick=100, thorough=4000), opts=dict(lossy=False, burst=True)),
        dict(name="burst-lossy", harness="dataplane", weight=1, runs=dict(quick=100, thorough=4000), opts=dict(lossy=True, burst=True)),
        dict(name="enum-frame", harness="dataplane", weight=3, runs=dict(quick=48, thorough=2000), opts=dict(lossy=False),
             enumerate=dict(kinds=["frame"], quick=40, thorough=None)),
    ],
    rule="run = (2-3 hosts, 1-5 datasets with unique bytes and deser strings, script of transfers incl. redundant ones / fetches / purges with gaps, loss-dup-delay pattern, schedule); "
         "distinct = distinct event-log digest; non-trivial = a payload/ack/command fault fired or a purge overlapped an unanswered transfer to that host, with >=1 command issued",
    real=REAL_DP, stub=STUB_DP,
    assumptions=["the command script respects C04's contract (never purges at the source of an unanswered transfer or fetch)",
                 "loss/duplication only on Syn-prefixed frames and Acks, capped per logical message below the retry budget (fair loss); faults stop before the final audit",
                 "final audit reads every host's store through the real shm client"],
    level_text="seeded loss/duplication/delay of payload frames, confirmations and commands against real DataServers and real shm servers, plus single-drop and single-duplicate enumeration of every acknowledged frame of recorded base runs; oracle at quiescence against a single-copy store per host (stored once, byte- and deser-identical, announced once per transmit idx, fetch delivers once, purge wins over late payloads) and continuously (no unlink while a data-server thread maps the segment)",
    level_note=_LN,
)

REAL_SHM = ["cascade.shm.server.LocalServer (start loop)", "cascade.shm.dataset.Manager", "cascade.shm.disk.Disk (its two 4-thread pools)", "cascade.shm.algorithms.lottery",
            "cascade.shm.client (allocate/get/purge/close/get_free_space with its own wait loop)", "cascade.shm.api (wire format)"]
STUB_SHM = ["UDP loopback sockets", "multiprocessing.shared_memory.SharedMemory (named segment namespace, POSIX unlink semantics, injectable ENOMEM)",
            "ThreadPoolExecutor (jobs are kernel threads, pre-empted at source lines of dataset.py / disk.py)", "threading.Lock in dataset.py", "builtin open / tempfile in disk.py (in-memory files with injectable EIO/ENOSPC/missing)",
            "uuid4 (reader ids)", "clock", "findmnt"]
_SHM_GROUPS = [
    dict(name="small", harness="shmstore", weight=3, runs=dict(quick=1500, thorough=40000), opts=dict()),
    dict(name="stale", harness="shmstore", weight=2, runs=dict(quick=800, thorough=20000), opts=dict(stale=True)),
    dict(name="big", harness="shmstore", weight=2, runs=dict(quick=600, thorough=15000), opts=dict(big=True)),
    dict(name="faults", harness="shmstore", weight=3, runs=dict(quick=1200, thorough=30000), opts=dict(faults=True, stale=True)),
    dict(name="noreuse", harness="shmstore", weight=3, runs=dict(quick=1500, thorough=40000), opts=dict(reuse=False, stale=True)),
    dict(name="noreuse-faults", harness="shmstore", weight=2, runs=dict(quick=800, thorough=20000), opts=dict(reuse=False, stale=True, faults=True)),
    # client processes with their own resource trackers exit while others go on using the store (no leaked handles in these plans)
    dict(name="procs-exit", harness="shmstore", weight=1, runs=dict(quick=400, thorough=10000), opts=dict(reuse=False, rtracker=True)),
    dict(name="enum-disk", harness="shmstore", weight=3, runs=dict(quick=96, thorough=4000), opts=dict(),
         enumerate=dict(kinds=["disk"], quick=30, thorough=None)),
]
PROPS["C08"] = dict(
    level="exploration", budget=dict(quick=90, thorough=900), groups=_SHM_GROUPS,
    rule="run = (capacity, 1-4 clients, <=6 keys, 3-16 operations per client from write/read(+hold)/purge/free-space query/sleep/leak, sizes from 1 to above capacity, optional disk or allocation faults, schedule incl. line-level pre-emption of disk jobs); "
         "distinct = distinct event-log digest; non-trivial = at least one page-out completed",
    real=REAL_SHM, stub=STUB_SHM,
    assumptions=["pre-emption granularity inside the store: seam calls plus source lines of dataset.py/disk.py for pool threads; a single source line is atomic (CPython GIL)",
                 "capacities stay below 2^32 (the 4-byte FreeSpaceResponse field is C17's subject)",
                 "the model of 'resident' is built from observable events only: grant, page-in submission, segment unlink"],
    level_text="seeded exploration of request histories and completion orders of asynchronous page-out / page-in jobs (successful and failed); oracle after every seam step: sum of existing segments <= capacity; after every server step: reported free <= capacity - resident (equality when no disk job is in flight), read both from Manager.free_space and over the UDP protocol; admission: oversize refused, nothing granted beyond the model's free space",
    level_note=_LN,
)
PROPS["C09"] = dict(
    level="fault_enumeration", budget=dict(quick=90, thorough=900), groups=_SHM_GROUPS,
    rule="same runs as C08; non-trivial = at least one page-in completed or a purge was delayed by an open reader",
    real=REAL_SHM, stub=STUB_SHM,
    assumptions=["a reader is open from the moment the server sends the granting GetResponse until the server receives that reader's CloseCallback",
                 "after an injected I/O error the affected key may disappear or a get may fail; it may never show other bytes",
                 "bounded liveness: after the workload every handle is closed, faults stop, the clock advances past the staleness windows and the real client's own 60 s wait loop must obtain capacity minus what a fault made unevictable"],
    level_text="seeded histories with disk faults (EIO/ENOSPC on page-out, missing file / read error on page-in, ENOMEM on segment create), clients dying with handles open and clock advances past the staleness windows; reference model key -> bytes of completed writes, open readers; oracles: bytes equal, not readable before writer close, no page-out / unlink under a fresh reader, delayed purge applied at last close, client API raises only documented errors, bounded liveness probe in a drain phase",
    level_note=_LN,
)

PROPS["C18"] = dict(
    level="exploration", budget=dict(quick=60, thorough=900),
    groups=[
        dict(name="fifo", harness="gateway", weight=1, runs=dict(quick=1500, thorough=40000), opts=dict(reorder=False, dup=False)),
        dict(name="reorder", harness="gateway", weight=3, runs=dict(quick=5000, thorough=150000), opts=dict(reorder=True, dup=True)),
        dict(name="impatient", harness="gateway", weight=2, runs=dict(quick=2500, thorough=80000), opts=dict(reorder=True, dup=True, short_timeouts=True)),
    ],
    rule="run = (1-4 jobs each with a generated sequence of progress / result / shutdown reports, 1-3 frontends with progress and result queries for known and unknown jobs and datasets, report latency window, duplication rate, forced uuid collisions, schedule); "
         "distinct = distinct event-log digest; non-trivial = at least one report was delivered out of timestamp order or duplicated",
    real=["cascade.gateway.server.serve / handle_fe / handle_controller", "cascade.gateway.router.JobRouter (spawn_job, maybe_update, put_result, progress_of, get_result)",
          "cascade.gateway.client.request_response / parse_request / serialize_response", "cascade.gateway.api", "cascade.controller.report.Reporter / serialize / deserialize", "cascade.low.func.next_uuid"],
    stub=["zmq REQ/REP/PUSH/PULL on the simulated network (reports reordered across links, duplicated, delayed; never dropped)", "subprocess.Popen (records the command line; a simulated controller sends the job's reports through one real Reporter per report)",
          "uuid4 (collisions forced)", "clock (monotonic_ns is the virtual clock)"],
    assumptions=["the gateway is single-threaded: the order in which its sockets' recv calls return is its linearisation order, and the model replays exactly that order",
                 "reports are never dropped (the reporting channel is unacknowledged; the property does not promise delivery)", "malformed requests are outside the property and are not generated"],
    level_text="seeded exploration of report histories (reorder across and within jobs, duplication, delay past the shutdown notice) interleaved with frontend queries; every response of the real gateway is compared with a sequential model (per job: progress of the report with the greatest timestamp seen so far; per (job, dataset): last uploaded bytes; unknown -> error) replayed in the gateway's own receive order; job ids pairwise distinct under forced uuid collisions",
    level_note=_LN,
)

PROPS["C10"] = dict(
    level="exploration", budget=dict(quick=60, thorough=900),
    groups=[
        dict(name="lower-sorted", harness="ctl", weight=3, runs=dict(quick=12000, thorough=250000), opts=dict(graph=True, graph_opts=dict(sorted_only=True, dup_arg_pct=0))),
        dict(name="lower-cluster", harness="cluster", weight=3, runs=dict(quick=800, thorough=20000), opts=dict(graph=True, graph_opts=dict(sorted_only=True, dup_arg_pct=0, nmax=5))),
        dict(name="lower-ctl", harness="ctl", weight=2, runs=dict(quick=8000, thorough=150000), opts=dict(graph=True)),
    ],
    rule="run = (graph built by hand with graph.Node or through the fluent API: any arity, argument order, static and keyword arguments, multi-output nodes with 1-14 outputs incl. unsorted declared names, outputs consumed by several nodes or none, occasional yield-count mismatch; lowered with graph2job; all datasets requested; cluster shape; schedule); "
         "distinct = distinct Bridge command/event log digest; non-trivial = the graph has a multi-output node or at least one edge",
    real=REAL_CTL + ["cluster group: " + ", ".join(REAL_CLUSTER), "cascade.low.into.graph2job / node2task", "earthkit.workflows.graph.{Node,Graph,serialise}", "earthkit.workflows.fluent.{from_source,map,reduce,Payload,Node,Action.graph}"],
    stub=STUB_CTL,
    assumptions=["the property quantifies over programs, not schedules; the schedule dimension is incidental here and is said so", "graph-level reference: payload (func, args, kwargs), argument strings naming an input are replaced by the parent's value, the k-th yielded value belongs to the k-th declared output",
                 "a yield-count mismatch must surface as a task failure (the run fails); it may never deliver a value"],
    level_text="seeded generation of graphs (hand-built and fluent) lowered by the repository's graph2job and executed through the real controller, scheduler and runner.run against the model cluster; structural oracle (one task per node, one edge per input, edge source = parent and output name, sink position = position of the input's name) and semantic oracle (every dataset equals direct evaluation of the graph); count mismatch must fail the run",
    level_note=_LN,
)
